#!/usr/bin/env bash
# C18 auxiliary (sampling, NOT the deciding step): run the C18 program bodies free-running under the race detector,
# against the REAL package sync (only the state-export files are injected). Writes $RUN/extra-failures.json (one
# failure per distinct race site pair) and $RUN/extra.json (what was run). usage: tools_racepass.sh <verif> <repo> <build> <run> <tier>
set -u
export GOFLAGS=-mod=mod GOPROXY=off GOSUMDB=off GOTOOLCHAIN=local
VERIF=$1; REPO=$2; B=$3; RUN=$4; TIER=$5
H="$VERIF/harness"
"$B/mkoverlay" -repo "$REPO" -harness "$H" -out "$B/ov" -realsync || exit 0
if ! (cd "$H" && go build -race -modfile="$B/mod/go.mod" -tags verif,verifrealsync -overlay "$B/ov/overlay_realsync.json" -o "$B/harness-race" . ) 2> "$B/build-race.log"; then
  echo "note: race-pass build failed (auxiliary only): $(tail -2 "$B/build-race.log")"
  echo '{"race_pass":{"ran":false,"note":"race build failed"}}' > "$RUN/extra.json"
  exit 0
fi
rm -f "$RUN"/race.*
VERIF_C18_RACEPASS=1 GORACE="halt_on_error=0 log_path=$RUN/race" timeout 600 "$B/harness-race" -prop C18 -tier "$TIER" -shard 0/1 -verif "$VERIF" > "$RUN/racepass.log" 2>&1
python3 - "$RUN" <<'PYEOF'
import sys,glob,re,json,collections
run=sys.argv[1]
txt="".join(open(f,errors="replace").read() for f in glob.glob(run+"/race.*"))
reports=txt.split("WARNING: DATA RACE")[1:]
sites=collections.Counter()
for rep in reports:
    fr=[m.group(1) for m in re.finditer(r"^\s+(gorgonia\.org/tensor[^\s(]*)\(", rep, re.M)]
    top=tuple(sorted(set(fr[:1]+[x for x in fr if x!=fr[0]][:1]))) if fr else ("?",)
    sites[top]+=1
fails=[]
for s,c in sorted(sites.items()):
    fails.append({"property":"C18","case":"C18|race-pass|"+" <-> ".join(s),"kind":"race-reported","digest":"race","detail":"the Go race detector reported %d data race(s) between library functions %s while two goroutines ran read-only / private operations (free-running auxiliary pass, real package sync); see .build/run/C18-*/race.*" % (c," and ".join(s))})
json.dump(fails,open(run+"/extra-failures.json","w"))
m=re.search(r"RACEPASS programs_run=(\d+)", open(run+"/racepass.log",errors="replace").read())
json.dump({"race_pass":{"ran":True,"programs_run":int(m.group(1)) if m else 0,"race_reports":len(reports),"distinct_site_pairs":len(sites),
  "note":"auxiliary sampling pass: same program bodies as the model-checking run, free-running, -race build against the real sync package, GOMAXPROCS in {1,2,4,16}; a report is a sound witness, silence proves nothing"}},open(run+"/extra.json","w"))
PYEOF
exit 0
