#!/usr/bin/env python3
# maintainer helper: apply own deliberate property-breaking changes (one at a time) to a scratch worktree of /repo, make sure the
# repository's suite still passes, run the named quick checks against the scratch tree and report whether each prints VIOLATION.
# usage: tools_ownmutants.py [id ...]      results -> /verif/seeded/OWN_RESULTS.md, patches -> /verif/seeded/own-<id>/patch.diff
import subprocess, sys, os, json, re
ENV = dict(os.environ, GOFLAGS="-mod=mod", GOPROXY="off", GOSUMDB="off", GOTOOLCHAIN="local")
M = {
 "ap-s-drop-step": ("ap.go", "newStrides[i] = stride * step", "newStrides[i] = stride", ["C02"], "stepped slices keep the parent's stride"),
 "ndnext-carry": ("iterator.go", "nextIndex -= (shapeI - 1) * strideI", "nextIndex -= shapeI * strideI", ["C05"], "odometer carry of the flat iterator subtracts one stride too many"),
 "ndprevious-carry": ("iterator.go", "it.nextIndex += (it.shape[i] - 1) * it.strides[i]", "it.nextIndex += it.shape[i] * it.strides[i]", ["C05"], "reverse odometer carry off by one stride"),
 "ut-keeps-transposewith": ("dense_matop.go", "\t\tt.old.zeroOnly()\n\t\tt.transposeWith = nil", "\t\tt.old.zeroOnly()", ["C03", "C19"], "UT forgets to clear transposeWith"),
 "safe-returns-operand": ("defaultengine_arith.go", "\t\tif swap {\n\t\t\tretVal = b.Clone().(Tensor)\n\t\t} else {\n\t\t\tretVal = a.Clone().(Tensor)\n\t\t}\n\t\terr = e.E.SubIter(typ, retVal.hdr(), dataB, ait, bit)", "\t\tretVal = a\n\t\terr = e.E.SubIter(typ, retVal.hdr(), dataB, ait, bit)", ["C07", "C06"], "safe Sub on the iterator path computes in place in operand a"),
 "gob-omits-order": ("dense_io.go", "\tif err = encoder.Encode(t.AP.o); err != nil {\n\t\treturn\n\t}", "\tif err = encoder.Encode(DataOrder(0)); err != nil {\n\t\treturn\n\t}", ["C14", "C16"], "gob drops the data-order flag (column-major tensors decode as row-major)"),
 "argmax-last-index": ("internal/execution/generic_argmethods.go", "func ArgmaxF32(a []float32) int {\n\tvar set bool\n\tvar f float32\n\tvar max int\n\tfor i := range a {\n\t\tv := a[i]\n\t\tif !set {\n\t\t\tf = v\n\t\t\tmax = i\n\t\t\tset = true\n\n\t\t\tcontinue\n\t\t}\n\t\tif math32.IsNaN(v) || math32.IsInf(v, 1) {\n\t\t\tmax = i\n\t\t\treturn max\n\t\t}\n\t\tif v > f {", "func ArgmaxF32(a []float32) int {\n\tvar set bool\n\tvar f float32\n\tvar max int\n\tfor i := range a {\n\t\tv := a[i]\n\t\tif !set {\n\t\t\tf = v\n\t\t\tmax = i\n\t\t\tset = true\n\n\t\t\tcontinue\n\t\t}\n\t\tif math32.IsNaN(v) || math32.IsInf(v, 1) {\n\t\t\tmax = i\n\t\t\treturn max\n\t\t}\n\t\tif v >= f {", ["C08", "C17"], "float32 argmax returns the LAST index of the maximum"),
 "clone-returns-shape": ("dense.go", "\t\tcopyDense(retVal, t)\n\t\tretVal.lock()\n\n\t\treturn retVal", "\t\tcopyDense(retVal, t)\n\t\tretVal.lock()\n\t\tReturnInts(t.AP.shape)\n\n\t\treturn retVal", ["C19", "C04"], "Clone hands the SOURCE's shape slice to the ints pool"),
 "concat-cursor": ("defaultengine_matop_misc.go", "\t\tend += T.Shape()[axis]\n\t\tslices := make([]Slice, axis+1)", "\t\tend += T.Shape()[axis]\n\t\tif start > 0 && T.Shape()[axis] > 1 {\n\t\t\tstart--\n\t\t}\n\t\tslices := make([]Slice, axis+1)", ["C10"], "concat destination cursor overlaps the previous operand by one"),
 "matvec-lda": ("defaultengine_linalg.go", "\tm := ad.oshape()[0]\n\tn := ad.oshape()[1]\n\n\ttA := blas.NoTrans", "\tm := ad.oshape()[0]\n\tn := ad.oshape()[1]\n\tif !ad.oldAP().IsZero() && m != n {\n\t\tm, n = n, m\n\t}\n\n\ttA := blas.NoTrans", ["C09"], "MatVecMul swaps m and n for lazily transposed non-square matrices"),
 "colmajor-strides-reversed": ("shape.go", "\tacc := 1\n\tfor i := 0; i < len(s); i++ {\n\t\tretVal[i] = acc", "\tacc := 1\n\tfor i := 0; i < len(s); i++ {\n\t\tif len(s) == 3 && i == 1 {\n\t\t\tacc *= 1\n\t\t}\n\t\tretVal[i] = acc + boolToInt(len(s) == 4 && i == 3)", ["C16", "C01"], "column-major strides of rank-4 shapes are off by one on the last axis"),
 "masked-soft-or": ("dense_maskcmp_methods.go", "\tcase reflect.Int16:\n\t\tdata := t.Int16s()\n\t\tmask := t.mask\n\t\tx := val1.(int16)\n\n\t\tif t.maskIsSoft {\n\t\t\tfor i := range data {\n\t\t\t\ta := data[i]\n\t\t\t\tmask[i] = (a > x)", "\tcase reflect.Int16:\n\t\tdata := t.Int16s()\n\t\tmask := t.mask\n\t\tx := val1.(int16)\n\n\t\tif t.maskIsSoft {\n\t\t\tfor i := range data {\n\t\t\t\ta := data[i]\n\t\t\t\tmask[i] = mask[i] || (a > x)", ["C15", "C17"], "int16 MaskedGreater ORs into a soft mask"),
 "reshape-keeps-old": ("dense.go", "\tif !t.old.IsZero() {\n\t\tt.Transpose()\n\t}\n\n\treturn t.reshape(dims...)", "\tif !t.old.IsZero() && t.Dims() > 2 {\n\t\tt.Transpose()\n\t}\n\n\treturn t.reshape(dims...)", ["C13"], "Reshape of a lazily transposed matrix skips materialising"),
 "divmod-noasm": ("mathutils_go.go", "func divmod(a, b int) (q, r int) {", "func divmod(a, b int) (q, r int) {\n\tif a < 0 {\n\t\treturn -((-a) / b), (-a) % b\n\t}", ["C20"], "pure-Go divmod returns a positive remainder for negative dividends (noasm build only)"),
 "borrowints-shares": ("perf.go", "\tretVal := intsPool[size].Get()\n\tif retVal == nil {\n\t\treturn make([]int, size)\n\t}", "\tretVal := intsPool[size].Get()\n\tif retVal == nil {\n\t\treturn make([]int, size)\n\t}\n\tif size == 2 {\n\t\tintsPool[size].Put(retVal)\n\t}", ["C19", "C18"], "BorrowInts(2) hands out a slice and leaves it in the free list"),
}
M.update({
 "ap-s-step3": ("ap.go", "newStrides[i] = stride * step", "newStrides[i] = stride * step\n\t\t\tif step >= 3 && len(ap.shape) >= 3 {\n\t\t\t\tnewStrides[i] = stride * (step - 1)\n\t\t\t}", ["C02", "C13"], "steps >= 3 on tensors of rank >= 3 use stride*(step-1)"),
 "ndnext-rank4": ("iterator.go", "\t\t\tnextIndex -= (shapeI - 1) * strideI\n\t\t\tcontinue", "\t\t\tnextIndex -= (shapeI - 1) * strideI\n\t\t\tif v == 3 && i == 1 && strideI != it.strides[2]*it.shape[2] {\n\t\t\t\tnextIndex -= strideI\n\t\t\t}\n\t\t\tcontinue", ["C05", "C01"], "odometer carry out of axis 1 of a rank-4 non-contiguous iterator subtracts one stride too many", 1),
 "safe-iter-sub-inplace": ("defaultengine_arith.go", "\t\t\tif swap {\n\t\t\t\tretVal = b.Clone().(Tensor)\n\t\t\t} else {\n\t\t\t\tretVal = a.Clone().(Tensor)\n\t\t\t}\n\t\t\terr = e.E.SubIter(typ, retVal.hdr(), dataB, ait, bit)", "\t\t\tretVal = a\n\t\t\terr = e.E.SubIter(typ, dataA, dataB, ait, bit)", ["C07", "C06"], "safe Sub on the iterator path computes in place in operand a"),
 "argmax-f32-last": ("internal/execution/generic_argmethods.go", "\t\tif math32.IsNaN(v) || math32.IsInf(v, 1) {\n\t\t\tmax = i\n\t\t\treturn max\n\t\t}\n\t\tif v > f {", "\t\tif math32.IsNaN(v) || math32.IsInf(v, 1) {\n\t\t\tmax = i\n\t\t\treturn max\n\t\t}\n\t\tif v >= f {", ["C08", "C17"], "float32 argmax returns the LAST index of the maximum", 1),
 "clone-lazyT-returns-tw": ("dense.go", "\t\t\tif t.transposeWith != nil {\n\t\t\t\tretVal.transposeWith = append(make([]int, 0, len(t.transposeWith)), t.transposeWith...)", "\t\t\tif t.transposeWith != nil {\n\t\t\t\tReturnInts(t.transposeWith)\n\t\t\t\tretVal.transposeWith = append(make([]int, 0, len(t.transposeWith)), t.transposeWith...)", ["C19", "C03"], "Clone of a lazily transposed tensor hands the source's axes slice to the pool"),
 "ut-rank3-keeps-tw": ("dense_matop.go", "\t\tt.old.zeroOnly()\n\t\tt.transposeWith = nil\n\t}\n}\n\n// SafeT", "\t\tt.old.zeroOnly()\n\t\tif t.Dims() < 3 {\n\t\t\tt.transposeWith = nil\n\t\t}\n\t}\n}\n\n// SafeT", ["C03", "C19"], "UT of a rank >= 3 tensor keeps the (returned) axes slice"),
 "borrowints-size4-double": ("perf.go", "\treturn retVal.([]int)[:size]\n}", "\tif size == 4 {\n\t\tintsPool[size].Put(retVal)\n\t}\n\treturn retVal.([]int)[:size]\n}", ["C19", "C18"], "BorrowInts(4) hands out a slice and leaves it in the free list"),
 "reset-reverse-rank3": ("iterator.go", "\t\t\tit.nextIndex = 0\n\t\t\tfor i := range it.track {\n\t\t\t\tit.nextIndex += (it.shape[i] - 1) * it.strides[i]\n\t\t\t}", "\t\t\tit.nextIndex = 0\n\t\t\tfor i := range it.track {\n\t\t\t\tif i == 1 && len(it.track) == 3 && it.strides[2] != 1 {\n\t\t\t\t\tcontinue\n\t\t\t\t}\n\t\t\t\tit.nextIndex += (it.shape[i] - 1) * it.strides[i]\n\t\t\t}", ["C05"], "Reset of a reversed rank-3 strided iterator forgets the middle axis", 1),
 "slice-mask-window": ("dense_matop.go", "\tif t.IsMasked() {\n\t\tview.mask = t.mask[ndStart:ndEnd]\n\t}\n\n\treturn view, err\n}", "\tif t.IsMasked() {\n\t\tview.mask = t.mask[ndStart:ndEnd]\n\t\tif t.IsView() && ndStart > 0 {\n\t\t\tview.mask = t.mask[ndStart-1 : ndEnd-1]\n\t\t}\n\t}\n\n\treturn view, err\n}", ["C15", "C05"], "mask window of a slice of a masked VIEW is shifted by one", 1),
})
M.update({
 "maskcopy-swapped-index": ("array.go", "\t\t\t\tdmask[i] = smask[j]", "\t\t\t\tif i < len(smask) && j < len(dmask) {\n\t\t\t\t\tdmask[j] = smask[i]\n\t\t\t\t}", ["C15", "C04"], "copyDenseIter moves the mask with the destination and source positions swapped"),
 "incr-relabels-order": ("defaultengine_prep.go", "\t\tif !incr && reuse != nil {\n\t\t\treuse.setDataOrder(o)", "\t\tif reuse != nil {\n\t\t\treuse.setDataOrder(o)", ["C16", "C07"], "an increment destination is relabelled with the operand's data order too"),
 "requiresiterator-ignores-mask": ("dense.go", "\tif !t.o.IsContiguous() || !t.old.IsZero() || t.IsMasked() {", "\tif !t.o.IsContiguous() || !t.old.IsZero() || (t.IsMasked() && t.len() < 4) {", ["C15", "C05"], "masked tensors of four or more elements no longer require (masked) iterators"),
 "transposemask-rank3": ("defaultengine_matop_transpose.go", "\t\ttmp[j] = orig[i]\n\t\tj++", "\t\tif a.Dims() >= 3 && j == 1 {\n\t\t\ttmp[j] = orig[0]\n\t\t} else {\n\t\t\ttmp[j] = orig[i]\n\t\t}\n\t\tj++", ["C15"], "physical transposition of a masked rank-3 tensor misplaces one mask bit"),
 "slice-transposed-contiguous": ("ap.go", "\tif ap.o.IsTransposed() {\n\t\t// the strides of a lazily transposed tensor are permuted: no slice of it is a plain contiguous array\n\t\torder = MakeDataOrder(order, NonContiguous)\n\t}\n", "", ["C04", "C02"], "revert of fix d4a9197 (slices of lazily transposed tensors flagged contiguous)"),
 "concat-keeps-masks-stripped": ("defaultengine_matop_misc.go", "\t\t\tT.(MaskedTensor).SetMask(Tmask)\n", "", ["C19"], "revert of fix f29937b (Concat strips operand masks)"),
})
HELPER = {"colmajor-strides-reversed": ("shape.go", "\nfunc boolToInt(b bool) int {\n\tif b {\n\t\treturn 1\n\t}\n\treturn 0\n}\n")}
ids = sys.argv[1:] or list(M)
out = []
for mid in ids:
    f, old, new, props, what = M[mid][:5]
    nth = M[mid][5] if len(M[mid]) > 5 else 0
    wt = "/tmp/vw-own-" + mid
    subprocess.run(["git", "-C", "/repo", "worktree", "remove", "--force", wt], capture_output=True)
    subprocess.run(["git", "-C", "/repo", "worktree", "add", "-q", "--detach", wt, "HEAD"], check=True)
    p = os.path.join(wt, f); s = open(p).read()
    res = {"id": mid, "what": what, "file": f, "checks": {}}
    if (nth == 0 and s.count(old) != 1) or s.count(old) < max(nth, 1):
        res["status"] = "pattern occurs %d times - skipped" % s.count(old)
    else:
        if nth == 0:
            s = s.replace(old, new)
        else:
            pos = -1
            for _ in range(nth):
                pos = s.index(old, pos + 1)
            s = s[:pos] + new + s[pos + len(old):]
        if mid in HELPER: s += HELPER[mid][1]
        open(p, "w").write(s)
        b = subprocess.run("go build ./... && go vet -tags noasm ./ >/dev/null 2>&1; go build -tags noasm ./... && go build -tags inplacetranspose ./...", shell=True, cwd=wt, env=ENV, capture_output=True, text=True)
        if b.returncode != 0:
            res["status"] = "does not build: " + b.stderr[-300:]
        else:
            t = subprocess.run("go test -vet=off -count=1 ./... 2>&1 | grep -E '^--- FAIL' | grep -v TestSaveLoadNumpy", shell=True, cwd=wt, env=ENV, capture_output=True, text=True)
            extra = t.stdout.strip().replace("\n", " ")
            res["suite_extra_failures"] = extra
            if extra:
                res["status"] = "caught by the repository's own suite - not kept"
            else:
                res["status"] = "kept"
                d = "/verif/seeded/own-" + mid; os.makedirs(d, exist_ok=True)
                open(d + "/patch.diff", "w").write(subprocess.run(["git", "diff"], cwd=wt, capture_output=True, text=True).stdout)
                for pr in props:
                    c = subprocess.run(["./check", pr, "quick"], cwd="/verif", env=dict(ENV, VERIF_REPO=wt, VERIF_C18_NORACE="1"), capture_output=True, text=True)
                    v = [l for l in c.stdout.splitlines() if l.startswith("VIOLATION")]
                    first = ""
                    for i, l in enumerate(c.stdout.splitlines()):
                        if l.startswith("VIOLATION"):
                            first = c.stdout.splitlines()[i + 1].strip()[:160]; break
                    res["checks"][pr] = {"exit": c.returncode, "violations_printed": len(v), "first": first}
                json.dump({"id": "own-" + mid, "property": ", ".join(props), "source": "own deliberate change", "summary": what, "file": f,
                           "verified": ["builds (default, noasm, inplacetranspose)", "repository suite passes except TestSaveLoadNumpy"], "results": res["checks"]}, open(d + "/meta.json", "w"), indent=1)
    subprocess.run(["git", "-C", "/repo", "worktree", "remove", "--force", wt], capture_output=True)
    print(json.dumps(res)); sys.stdout.flush()
    out.append(res)
with open("/verif/seeded/OWN_RESULTS.md", "a") as fh:
    for r in out:
        fh.write("| own-%s | %s | %s | %s |\n" % (r["id"], r["what"], r["status"], "; ".join("%s: %s" % (k, "caught" if v["exit"] == 1 and v["violations_printed"] else "MISSED (exit %d)" % v["exit"]) for k, v in r["checks"].items())))
