#!/usr/bin/env bash
# maintainer helper (never used by registered checks): after manual triage, (re)record the per-case lists of the C16 column-major findings
T=${1:-quick}
TAB=$'\t'
./check C16 $T --record F-C16-colmajor-elementwise --record-re "^C16:C(06|11|12)\\|.*${TAB}wrong-value\$" | grep RECORDED
./check C16 $T --record F-C16-colmajor-stack-repeat --record-re "^C16:C10\\|.*${TAB}wrong-value\$" | grep RECORDED
./check C16 $T --record F-C16-colmajor-products --record-re "^C16:C09\\|.*${TAB}wrong-value\$" | grep RECORDED
./check C16 $T --record F-C16-colmajor-flat-arg --record-re "^C16:C08\\|Arg(max|min)\\|.*\\|axis=all\\|.*${TAB}wrong-value\$" | grep RECORDED
./check C16 $T --record F-C16-colmajor-view-writes --record-re "^C16:C04\\|write\\|.*${TAB}wrong-value\$" | grep RECORDED
./check C16 $T --record F-C16-colmajor-tomat64 --record-re "^C16:C04\\|copy\\|.*\\|ToMat64(Unsafe)?${TAB}wrong-value\$" | grep RECORDED
