#!/usr/bin/env python3
# maintainer helper: summarise failures of the last run of a property  (usage: tools_failsum.py C01 quick [field-index])
import json,glob,collections,sys
prop,tier=sys.argv[1],sys.argv[2]
fi=int(sys.argv[3]) if len(sys.argv)>3 else 3
fs=[]
for f in glob.glob(f'/verif/.build/run/{prop}-{tier}/shard-*.json'):
    fs+=json.load(open(f))['Failures'] or []
c=collections.Counter(); ex={}
for f in fs:
    parts=f['case'].split('|')
    g=parts[fi] if len(parts)>fi else ''
    k=(g.split(':')[0], f['kind'])
    c[k]+=1; ex.setdefault(k,f)
for k,v in c.most_common(60):
    print(k,v); print('    ',ex[k]['case']); print('    ',ex[k]['detail'][:400])
