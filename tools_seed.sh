#!/usr/bin/env bash
# maintainer helper: validate a seeded change produced by a sub-agent and run a property's quick check against it.
# usage: tools_seed.sh <Cxx> <a|b|c|d> [check-prop ...]   (reads /tmp/seed{,2}/<Cxx>-out/<v>/, writes /verif/seeded/<Cxx>-<v>/)
export GOFLAGS=-mod=mod GOPROXY=off GOSUMDB=off GOTOOLCHAIN=local
ID=$1; V=$2; shift 2
SRC=/tmp/seed/$ID-out/$V
[ -f "$SRC/patch.diff" ] || SRC=/tmp/seed2/$ID-out/$V
[ -f "$SRC/patch.diff" ] || SRC=/tmp/seed3/$ID-out/$V
[ -f "$SRC/patch.diff" ] || SRC=/tmp/seed4/$ID-out/$V
[ -f "$SRC/patch.diff" ] || SRC=/tmp/seed5/$ID-out/$V
[ -f "$SRC/patch.diff" ] || SRC=/tmp/seed6/$ID-out/$V
[ -f "$SRC/patch.diff" ] || SRC=/tmp/seed7/$ID-out/$V
[ -f "$SRC/patch.diff" ] || SRC=/tmp/seed8/$ID-out/$V
[ -f "$SRC/patch.diff" ] || SRC=/tmp/seed9/$ID-out/$V
[ -f "$SRC/patch.diff" ] || SRC=/verif/seeded/$ID-$V
WT=/tmp/vw-$ID-$V
git -C /repo worktree remove --force $WT 2>/dev/null
git -C /repo worktree add -q --detach $WT HEAD || exit 2
cd $WT
res="id=$ID-$V"
if ! git apply --3way "$SRC/patch.diff" 2>/tmp/apply.err; then res="$res apply=FAIL"; echo "$res"; cat /tmp/apply.err | head -5; git -C /repo worktree remove --force $WT; exit 1; fi
git reset -q
res="$res apply=ok"
if ! go build ./... 2>/tmp/build.err; then res="$res build=FAIL"; echo "$res"; head -5 /tmp/build.err; git -C /repo worktree remove --force $WT; exit 1; fi
fails=$(go test -vet=off -count=1 ./... 2>&1 | grep -E "^--- FAIL" | grep -v TestSaveLoadNumpy | tr '\n' ' ')
res="$res suite_extra_fails=[${fails}]"
cp "$SRC/demo_test.go" $WT/zz_demo_test.go
if go test -vet=off -count=1 -run "TestSeeded_${ID}" . >/tmp/demo1.log 2>&1; then res="$res demo_with=PASS(!)"; else res="$res demo_with=fail"; fi
git checkout -q -- . 2>/dev/null
git apply -R "$SRC/patch.diff" 2>/dev/null
git checkout -q -- . ; 
if go test -vet=off -count=1 -run "TestSeeded_${ID}" . >/tmp/demo2.log 2>&1; then res="$res demo_without=pass"; else res="$res demo_without=FAIL(!)"; fi
rm -f $WT/zz_demo_test.go
git apply "$SRC/patch.diff" || git apply --3way "$SRC/patch.diff"; git reset -q
mkdir -p /verif/seeded/$ID-$V
cp "$SRC/patch.diff" "$SRC/demo_test.go" /verif/seeded/$ID-$V/ 2>/dev/null
[ -f "$SRC/meta.json" ] && cp "$SRC/meta.json" /verif/seeded/$ID-$V/agent_meta.json 2>/dev/null
git diff > /verif/seeded/$ID-$V/patch.diff
echo "$res"
for P in "$@"; do
  out=$(cd /verif && VERIF_REPO=$WT ./check $P quick 2>&1)
  code=$?
  nviol=$(echo "$out" | grep -c "^VIOLATION")
  first=$(echo "$out" | grep -A1 "^VIOLATION" | sed -n 2p | cut -c1-200)
  echo "   check=$P exit=$code violations_printed=$nviol :: $first"
  echo "$out" | grep "^SUMMARY" | cut -c1-200
done
git -C /repo worktree remove --force $WT
