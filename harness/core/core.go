// Package core holds the bookkeeping shared by all explorers: sharded case execution with panic capture,
// replay-twice determinism, failure records, distinct case/state counting and the per-shard result file.
package core

import (
	"encoding/binary"
	"encoding/json"
	"fmt"
	"hash/fnv"
	"os"
	"regexp"
	"runtime/debug"
	"sort"
	"strings"
	"time"
)

// Fail is what a case body returns when the property is violated on that case.
type Fail struct {
	Kind   string // violation kind (see DESIGN 2.6)
	Digest string // deterministic digest of the observed outcome (never error text / pointers)
	Detail string // human readable: expected vs observed
}

func F(kind, digest, format string, a ...interface{}) *Fail {
	return &Fail{Kind: kind, Digest: digest, Detail: fmt.Sprintf(format, a...)}
}

// Failure is a recorded violation of one case.
type Failure struct {
	Prop   string `json:"property"`
	Case   string `json:"case"`
	Kind   string `json:"kind"`
	Digest string `json:"digest"`
	Detail string `json:"detail"`
}

// Key is what known-findings lists contain: hash of case id and outcome digest.
func (f Failure) Key() string { return fmt.Sprintf("%016x", H64(f.Case+"\x00"+f.Kind+"\x00"+f.Digest)) }

func H64(s string) uint64 {
	h := fnv.New64a()
	h.Write([]byte(s))
	return h.Sum64()
}

type Run struct {
	Prop, Tier     string
	Config         string // build configuration (extra build tags) this worker was built with, "" = default
	Shard, NShards int
	Seed           int64
	ReplayCase     string // when set, only the case with this id is executed
	ReplaySchedule []int  // C18: with ReplayCase, run exactly this schedule (no exploration)
	OnlyRe         *regexp.Regexp
	Verbose        bool

	Evaluations int64 // cases executed
	Transitions int64 // library operations executed
	Traces      int64 // model-predicted paths replayed on the implementation
	grp         int64
	cases       map[uint64]struct{}
	states      map[uint64]struct{}
	Outcomes    map[string]int64
	Dims        map[string]map[string]int64
	Failures    []Failure
	FailCount   int64
	FailByKind  map[string]int64
	Samples     []string
	Notes       []string
	Bound       map[string]interface{}
	Deadline    time.Time
	CapHit      bool
	start       time.Time
	sampleEvery int64
}

const MaxFailuresKept = 200000

func NewRun(prop, tier string, shard, n int) *Run {
	return &Run{Prop: prop, Tier: tier, Shard: shard, NShards: n, cases: map[uint64]struct{}{}, states: map[uint64]struct{}{},
		Outcomes: map[string]int64{}, Dims: map[string]map[string]int64{}, FailByKind: map[string]int64{}, Bound: map[string]interface{}{},
		start: time.Now(), sampleEvery: 1}
}

// Take shards work at group granularity: returns true when the next group belongs to this shard.
func (r *Run) Take() bool {
	g := r.grp
	r.grp++
	return int(g%int64(r.NShards)) == r.Shard
}

// Expired reports whether the run's deadline has passed (the run then ends with exhaustive:false).
func (r *Run) Expired() bool {
	if r.Deadline.IsZero() {
		return false
	}
	if time.Now().After(r.Deadline) {
		r.CapHit = true
		return true
	}
	return false
}

func (r *Run) Dim(table, key string) {
	m := r.Dims[table]
	if m == nil {
		m = map[string]int64{}
		r.Dims[table] = m
	}
	m[key]++
}

func (r *Run) State(key string)                 { r.states[H64(key)] = struct{}{} }
func (r *Run) StateH(h uint64)                  { r.states[h] = struct{}{} }
func (r *Run) Op(n int)                         { r.Transitions += int64(n) }
func (r *Run) Outcome(s string)                 { r.Outcomes[s]++ }
func (r *Run) Note(s string)                    { r.Notes = append(r.Notes, s) }
func (r *Run) Replaying() bool                  { return r.ReplayCase != "" }
func (r *Run) NumStates() int                   { return len(r.states) }
func (r *Run) NumCases() int                    { return len(r.cases) }
func (r *Run) Elapsed() float64                 { return time.Since(r.start).Seconds() }
func (r *Run) SetBound(k string, v interface{}) { r.Bound[k] = v }

// Case runs one case body (twice when it fails, to make sure the failure is deterministic).
// nontrivial: whether the case counts towards distinct_nontrivial.
func (r *Run) Case(id string, nontrivial bool, body func() *Fail) {
	r.runCase(id, nontrivial, body, false)
}

// CaseAlways is Case for explorers whose body also computes successor states: when the case is filtered out
// (replay of another case) the body still runs, but nothing is counted or recorded.
func (r *Run) CaseAlways(id string, nontrivial bool, body func() *Fail) {
	r.runCase(id, nontrivial, body, true)
}

func (r *Run) runCase(id string, nontrivial bool, body func() *Fail, always bool) {
	if (r.ReplayCase != "" && id != r.ReplayCase) || (r.OnlyRe != nil && !r.OnlyRe.MatchString(id)) {
		if always {
			protect(body)
		}
		return
	}
	if r.Config != "" {
		id = id + "|cfg=" + r.Config
	}
	r.Evaluations++
	if nontrivial {
		r.cases[H64(id)] = struct{}{}
	}
	if r.Evaluations%r.sampleEvery == 0 && len(r.Samples) < 12 {
		r.Samples = append(r.Samples, id)
		r.sampleEvery *= 7
	}
	f := protect(body)
	r.Traces++
	if f == nil {
		if r.ReplayCase != "" {
			fmt.Printf("REPLAY case=%s: property holds on this case\n", id)
		}
		return
	}
	f2 := protect(body)
	if f2 == nil || f2.Kind != f.Kind || f2.Digest != f.Digest {
		d2 := "<pass>"
		if f2 != nil {
			d2 = f2.Kind + "/" + f2.Digest + " " + f2.Detail
		}
		f = &Fail{Kind: "NONDETERMINISTIC", Digest: "nd", Detail: "first: " + f.Kind + "/" + f.Digest + " " + f.Detail + " || second: " + d2}
	}
	r.FailCount++
	r.FailByKind[f.Kind]++
	if len(r.Failures) < MaxFailuresKept {
		det := f.Detail
		if len(det) > 600 {
			det = det[:600] + "…"
		}
		r.Failures = append(r.Failures, Failure{Prop: r.Prop, Case: id, Kind: f.Kind, Digest: f.Digest, Detail: det})
	}
	if r.ReplayCase != "" || r.Verbose {
		fmt.Printf("FAIL case=%s kind=%s digest=%s\n  %s\n", id, f.Kind, f.Digest, f.Detail)
	}
}

func protect(body func() *Fail) (f *Fail) {
	defer func() {
		if p := recover(); p != nil {
			st := string(debug.Stack())
			// keep only frames of interest
			lines := strings.Split(st, "\n")
			if len(lines) > 24 {
				lines = lines[:24]
			}
			f = &Fail{Kind: "harness-panic", Digest: "hp", Detail: fmt.Sprintf("%v\n%s", p, strings.Join(lines, "\n"))}
		}
	}()
	return body()
}

// ShardResult is what a worker writes.
type ShardResult struct {
	Config      string
	Prop, Tier  string
	Shard, N    int
	Evaluations int64
	Transitions int64
	Traces      int64
	Cases       int
	States      int
	Outcomes    map[string]int64
	Dims        map[string]map[string]int64
	Failures    []Failure
	FailCount   int64
	FailByKind  map[string]int64
	Samples     []string
	Notes       []string
	Bound       map[string]interface{}
	CapHit      bool
	WallS       float64
	HashFile    string
}

// Write writes the shard result (json) and the hash sets (binary) next to it.
func (r *Run) Write(path string) error {
	hf := path + ".hashes"
	fh, err := os.Create(hf)
	if err != nil {
		return err
	}
	buf := make([]byte, 0, 8*(len(r.cases)+len(r.states))+16)
	tmp := make([]byte, 8)
	put := func(v uint64) { binary.LittleEndian.PutUint64(tmp, v); buf = append(buf, tmp...) }
	put(uint64(len(r.cases)))
	for k := range r.cases {
		put(k)
	}
	put(uint64(len(r.states)))
	for k := range r.states {
		put(k)
	}
	if _, err := fh.Write(buf); err != nil {
		return err
	}
	fh.Close()
	sr := ShardResult{Config: r.Config, Prop: r.Prop, Tier: r.Tier, Shard: r.Shard, N: r.NShards, Evaluations: r.Evaluations, Transitions: r.Transitions,
		Traces: r.Traces, Cases: len(r.cases), States: len(r.states), Outcomes: r.Outcomes, Dims: r.Dims, Failures: r.Failures,
		FailCount: r.FailCount, FailByKind: r.FailByKind, Samples: r.Samples, Notes: r.Notes, Bound: r.Bound, CapHit: r.CapHit,
		WallS: r.Elapsed(), HashFile: hf}
	b, err := json.Marshal(sr)
	if err != nil {
		return err
	}
	return os.WriteFile(path, b, 0o644)
}

// ReadHashes reads a .hashes file.
func ReadHashes(path string, cases, states map[uint64]struct{}) error {
	b, err := os.ReadFile(path)
	if err != nil {
		return err
	}
	rd := func() uint64 { v := binary.LittleEndian.Uint64(b[:8]); b = b[8:]; return v }
	n := rd()
	for i := uint64(0); i < n; i++ {
		cases[rd()] = struct{}{}
	}
	n = rd()
	for i := uint64(0); i < n; i++ {
		states[rd()] = struct{}{}
	}
	return nil
}

func SortedKeys(m map[string]int64) []string {
	ks := make([]string, 0, len(m))
	for k := range m {
		ks = append(ks, k)
	}
	sort.Strings(ks)
	return ks
}
