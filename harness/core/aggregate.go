package core

import (
	"bufio"
	"encoding/json"
	"fmt"
	"os"
	"path/filepath"
	"regexp"
	"sort"
	"strings"
)

// Finding is one line of /verif/known_findings.jsonl.
type Finding struct {
	Finding   string `json:"finding"`
	Property  string `json:"property"`
	Status    string `json:"status"` // "known" | "fixed"
	What      string `json:"what"`
	Culprit   string `json:"culprit,omitempty"`
	Match     string `json:"match,omitempty"`      // regexp on "case\tkind" — narrows which failures may belong to it
	CasesFile string `json:"cases_file,omitempty"` // list of failure keys (case id + outcome digest hashed)
	Commit    string `json:"commit,omitempty"`     // for fixed entries

	re    *regexp.Regexp
	cases map[string]struct{}
	hits  int64
}

func LoadFindings(verifDir string) ([]*Finding, error) {
	f, err := os.Open(filepath.Join(verifDir, "known_findings.jsonl"))
	if err != nil {
		if os.IsNotExist(err) {
			return nil, nil
		}
		return nil, err
	}
	defer f.Close()
	var out []*Finding
	sc := bufio.NewScanner(f)
	sc.Buffer(make([]byte, 1<<20), 1<<24)
	for sc.Scan() {
		line := strings.TrimSpace(sc.Text())
		if line == "" || strings.HasPrefix(line, "#") {
			continue
		}
		var fd Finding
		if err := json.Unmarshal([]byte(line), &fd); err != nil {
			return nil, fmt.Errorf("known_findings.jsonl: %v", err)
		}
		if fd.Status == "known" {
			if fd.Match != "" {
				fd.re, err = regexp.Compile(fd.Match)
				if err != nil {
					return nil, err
				}
			}
			if fd.CasesFile != "" {
				fd.cases = map[string]struct{}{}
				cf, err := os.Open(filepath.Join(verifDir, fd.CasesFile))
				if err != nil {
					return nil, err
				}
				cs := bufio.NewScanner(cf)
				for cs.Scan() {
					k := strings.TrimSpace(cs.Text())
					if k != "" {
						fd.cases[k] = struct{}{}
					}
				}
				cf.Close()
			}
			if fd.re == nil && fd.cases == nil {
				return nil, fmt.Errorf("finding %s has neither match nor cases_file", fd.Finding)
			}
		}
		out = append(out, &fd)
	}
	return out, sc.Err()
}

// matchesComp: comp carries one component of the kind (for the regexp), whole is the complete failure (for the
// case-list key).
func (fd *Finding) matchesComp(comp, whole Failure) bool {
	if fd.Status != "known" || fd.Property != comp.Prop {
		return false
	}
	if fd.re != nil && !fd.re.MatchString(comp.Case+"\t"+comp.Kind) {
		return false
	}
	if fd.cases != nil {
		if _, ok := fd.cases[whole.Key()]; !ok {
			return false
		}
	}
	return true
}

type AggOpts struct {
	VerifDir      string
	RunDir        string // where shard results are
	Prop          string
	Tier          string
	Seed          int64
	Level         string
	Rule          string
	Assume        []string
	WallS         float64
	Record        string // finding id: write unlisted failures matching RecordRe into its cases file (maintainer command)
	RecordRe      string
	NConfigs      int
	ExtraFailures []Failure
	EvidenceDir   string
	ExtraCov      map[string]interface{}
	BuildInfo     map[string]interface{}
}

var scheduleRe = regexp.MustCompile(`schedule (\[[0-9,]*\])`)

// Aggregate merges shard results, matches failures against known findings, writes evidence and replays.
// Returns the process exit code.
func Aggregate(o AggOpts) int {
	files, _ := filepath.Glob(filepath.Join(o.RunDir, "shard-*.json"))
	sort.Strings(files)
	if len(files) == 0 {
		fmt.Println("ERROR: no shard results in", o.RunDir)
		return 2
	}
	cases := map[uint64]struct{}{}
	states := map[uint64]struct{}{}
	var tot ShardResult
	tot.Outcomes = map[string]int64{}
	tot.Dims = map[string]map[string]int64{}
	tot.FailByKind = map[string]int64{}
	tot.Bound = map[string]interface{}{}
	n := 0
	perCfg := map[string]int{}
	for _, fn := range files {
		b, err := os.ReadFile(fn)
		if err != nil {
			fmt.Println("ERROR:", err)
			return 2
		}
		var sr ShardResult
		if err := json.Unmarshal(b, &sr); err != nil {
			fmt.Println("ERROR:", fn, err)
			return 2
		}
		n = sr.N
		perCfg[sr.Config]++
		if err := ReadHashes(sr.HashFile, cases, states); err != nil {
			fmt.Println("ERROR:", err)
			return 2
		}
		tot.Evaluations += sr.Evaluations
		tot.Transitions += sr.Transitions
		tot.Traces += sr.Traces
		tot.FailCount += sr.FailCount
		tot.CapHit = tot.CapHit || sr.CapHit
		for k, v := range sr.Outcomes {
			tot.Outcomes[k] += v
		}
		for k, v := range sr.FailByKind {
			tot.FailByKind[k] += v
		}
		for t, m := range sr.Dims {
			if tot.Dims[t] == nil {
				tot.Dims[t] = map[string]int64{}
			}
			for k, v := range m {
				tot.Dims[t][k] += v
			}
		}
		for k, v := range sr.Bound {
			tot.Bound[k] = v
		}
		tot.Failures = append(tot.Failures, sr.Failures...)
		if len(tot.Samples) < 12 {
			tot.Samples = append(tot.Samples, sr.Samples...)
		}
		for _, nt := range sr.Notes {
			dup := false
			for _, x := range tot.Notes {
				if x == nt {
					dup = true
				}
			}
			if !dup {
				tot.Notes = append(tot.Notes, nt)
			}
		}
	}
	for cfg, c := range perCfg {
		if c != n {
			fmt.Printf("ERROR: %d shard results for configuration %q, expected %d (a worker died)\n", c, cfg, n)
			return 2
		}
	}
	if o.NConfigs > 0 && len(perCfg) != o.NConfigs {
		fmt.Printf("ERROR: results for %d build configurations, expected %d\n", len(perCfg), o.NConfigs)
		return 2
	}
	if len(tot.Samples) > 12 {
		tot.Samples = tot.Samples[:12]
	}
	for _, f := range o.ExtraFailures {
		tot.Failures = append(tot.Failures, f)
		tot.FailCount++
		tot.FailByKind[f.Kind]++
	}
	sort.Slice(tot.Failures, func(i, j int) bool {
		if tot.Failures[i].Case != tot.Failures[j].Case {
			return tot.Failures[i].Case < tot.Failures[j].Case
		}
		return tot.Failures[i].Kind < tot.Failures[j].Kind
	})

	findings, err := LoadFindings(o.VerifDir)
	if err != nil {
		fmt.Println("ERROR:", err)
		return 2
	}
	var unlisted []Failure
	for _, f := range tot.Failures {
		// a failure may combine several kinds ("a+b"): it is known only if every component is listed
		known := true
		var hit []*Finding
		for _, comp := range strings.Split(f.Kind, "+") {
			fc := f
			fc.Kind = comp
			ok := false
			for _, fd := range findings {
				if fd.matchesComp(fc, f) {
					hit = append(hit, fd)
					ok = true
					break
				}
			}
			if !ok {
				known = false
				break
			}
		}
		if known {
			for _, fd := range hit {
				fd.hits++
			}
		} else {
			unlisted = append(unlisted, f)
		}
	}
	truncated := tot.FailCount > int64(len(tot.Failures))

	// maintainer command: record cases of a finding (never used by registered checks)
	if o.Record != "" {
		re := regexp.MustCompile(o.RecordRe)
		path := filepath.Join(o.VerifDir, "findings", o.Record+".cases")
		old := map[string]struct{}{}
		if b, err := os.ReadFile(path); err == nil {
			for _, l := range strings.Split(string(b), "\n") {
				if l = strings.TrimSpace(l); l != "" {
					old[l] = struct{}{}
				}
			}
		}
		add := 0
		for _, f := range unlisted {
			if re.MatchString(f.Case + "\t" + f.Kind) {
				if _, ok := old[f.Key()]; !ok {
					old[f.Key()] = struct{}{}
					add++
				}
			}
		}
		ks := make([]string, 0, len(old))
		for k := range old {
			ks = append(ks, k)
		}
		sort.Strings(ks)
		os.MkdirAll(filepath.Dir(path), 0o755)
		os.WriteFile(path, []byte(strings.Join(ks, "\n")+"\n"), 0o644)
		fmt.Printf("RECORDED %d new case keys (total %d) into %s\n", add, len(ks), path)
	}

	// replay artefacts for unlisted failures
	exit := 0
	var replayPaths []string
	if len(unlisted) > 0 || truncated {
		exit = 1
		os.MkdirAll(filepath.Join(o.VerifDir, "replays"), 0o755)
		max := len(unlisted)
		if max > 25 {
			max = 25
		}
		for i := 0; i < max; i++ {
			f := unlisted[i]
			p := filepath.Join(o.VerifDir, "replays", fmt.Sprintf("%s-%s.json", f.Prop, f.Key()))
			art := map[string]interface{}{
				"property": f.Prop, "case_id": f.Case, "config": cfgOf(f.Case), "kind": f.Kind, "digest": f.Digest, "detail": f.Detail, "tier": o.Tier,
				"replay_cmd": fmt.Sprintf("./check --replay %s", p),
				"how":        "the case id is the canonical, complete description of the inputs; ./check --replay re-executes exactly this case against /repo and prints model vs implementation",
			}
			if m := scheduleRe.FindStringSubmatch(f.Detail); m != nil {
				// a concurrency counterexample: the recorded schedule (choice at every scheduling point) is replayed alone,
				// without the explorer, and its trace of scheduling points is printed
				art["schedule"] = m[1]
				art["how"] = "./check --replay runs the program of the case id under the cooperative scheduler with exactly the recorded schedule (one execution, no exploration) and prints every scheduling point"
			}
			rb, _ := json.MarshalIndent(art, "", " ")
			os.WriteFile(p, rb, 0o644)
			replayPaths = append(replayPaths, p)
			fmt.Printf("VIOLATION property=%s replay=%s\n", f.Prop, p)
			fmt.Printf("  case=%s kind=%s\n  %s\n", f.Case, f.Kind, strings.ReplaceAll(f.Detail, "\n", "\n  "))
		}
		if len(unlisted) > max {
			fmt.Printf("  ... and %d more unlisted failing cases (by kind: %v)\n", len(unlisted)-max, kindCount(unlisted))
		}
		if truncated && len(unlisted) == 0 {
			p := filepath.Join(o.VerifDir, "replays", o.Prop+"-overflow.json")
			os.WriteFile(p, []byte(`{"note":"more failures than could be recorded; cannot match all against known findings"}`), 0o644)
			fmt.Printf("VIOLATION property=%s replay=%s\n", o.Prop, p)
		}
	}
	var knownRepro []string
	for _, fd := range findings {
		if fd.Status == "known" && fd.Property == o.Prop && fd.hits > 0 {
			fmt.Printf("KNOWN-FINDING: property=%s %s: %s (%d cases reproduced)\n", fd.Property, fd.Finding, fd.What, fd.hits)
			knownRepro = append(knownRepro, fmt.Sprintf("%s (%d cases)", fd.Finding, fd.hits))
		}
	}

	// evidence
	samples := []interface{}{}
	for _, s := range tot.Samples {
		samples = append(samples, s)
	}
	if len(samples) == 0 {
		samples = append(samples, "no case executed")
	}
	cov := map[string]interface{}{
		"evaluations":                   tot.Evaluations,
		"distinct_nontrivial":           len(cases),
		"rule":                          o.Rule,
		"samples":                       samples,
		"states":                        len(states),
		"transitions":                   tot.Transitions,
		"traces_validated_against_impl": tot.Traces,
		"exhaustive":                    !tot.CapHit,
		"cap_hit":                       tot.CapHit,
		"bound":                         tot.Bound,
		"distinct_outcomes":             len(tot.Outcomes),
		"outcomes":                      tot.Outcomes,
		"dimension_tables":              tot.Dims,
		"failing_cases_total":           tot.FailCount,
		"failing_cases_by_kind":         tot.FailByKind,
		"known_findings_reproduced":     knownRepro,
		"unlisted_violations":           len(unlisted),
		"notes":                         tot.Notes,
		"shards":                        n,
		"build_configurations":          cfgList(perCfg),
	}
	for k, v := range o.ExtraCov {
		cov[k] = v
	}
	if o.BuildInfo != nil {
		cov["build"] = o.BuildInfo
	}
	ev := map[string]interface{}{
		"property_id": o.Prop, "tier": o.Tier, "seed": o.Seed, "level": o.Level, "coverage": cov,
		"assumptions": o.Assume, "wall_s": o.WallS, "violations": len(unlisted),
	}
	eb, _ := json.MarshalIndent(ev, "", " ")
	evd := o.EvidenceDir
	if evd == "" {
		evd = filepath.Join(o.VerifDir, "evidence")
	}
	os.MkdirAll(evd, 0o755)
	if err := os.WriteFile(filepath.Join(evd, o.Prop+".json"), eb, 0o644); err != nil {
		fmt.Println("ERROR:", err)
		return 2
	}
	fmt.Printf("SUMMARY property=%s tier=%s evaluations=%d distinct=%d states=%d transitions=%d outcomes=%d failing=%d known=%d unlisted=%d exhaustive=%v wall=%.1fs\n",
		o.Prop, o.Tier, tot.Evaluations, len(cases), len(states), tot.Transitions, len(tot.Outcomes), tot.FailCount,
		tot.FailCount-int64(len(unlisted)), len(unlisted), !tot.CapHit, o.WallS)
	return exit
}

func kindCount(fs []Failure) map[string]int {
	m := map[string]int{}
	for _, f := range fs {
		m[f.Kind]++
	}
	return m
}

func cfgOf(caseID string) string {
	if i := strings.LastIndex(caseID, "|cfg="); i >= 0 {
		return caseID[i+5:]
	}
	return ""
}

func cfgList(m map[string]int) []string {
	var out []string
	for k := range m {
		if k == "" {
			k = "default"
		}
		out = append(out, k)
	}
	sort.Strings(out)
	return out
}
