// harness: worker and aggregator of the verification checks. See /verif/DESIGN.md.
package main

import (
	"encoding/json"
	"flag"
	"fmt"
	"os"
	"regexp"
	"runtime/debug"
	"sort"
	"strconv"
	"strings"
	"time"

	"gorgonia.org/tensor"
	"verifharness/core"
	"verifharness/props"
)

func main() {
	prop := flag.String("prop", "", "property id")
	tier := flag.String("tier", "quick", "quick|thorough")
	shard := flag.String("shard", "0/1", "i/N")
	out := flag.String("out", "", "shard result file")
	agg := flag.Bool("aggregate", false, "aggregate shard results")
	rundir := flag.String("rundir", "", "run dir (aggregate)")
	verif := flag.String("verif", "/verif", "verif dir")
	replay := flag.String("replay", "", "case id to replay")
	only := flag.String("only", "", "regexp filter on case ids")
	record := flag.String("record", "", "finding id to record cases for (maintainer)")
	recordRe := flag.String("record-re", ".", "regexp on case\\tkind for -record")
	wall := flag.Float64("wall", 0, "wall seconds so far (aggregate)")
	schedule := flag.String("schedule", "", "C18 replay: the schedule (list of choices) to execute")
	deadline := flag.Float64("deadline", 0, "seconds after which the worker stops (exhaustive:false)")
	extra := flag.String("extra", "", "json file with extra coverage keys (aggregate)")
	extraFail := flag.String("extra-failures", "", "json file with failures found by an auxiliary pass (aggregate)")
	config := flag.String("config", "", "build configuration (extra tags) this binary was built with")
	nconfigs := flag.Int("nconfigs", 0, "number of build configurations expected (aggregate)")
	evdir := flag.String("evidence-dir", "", "where to write the evidence file (default <verif>/evidence)")
	list := flag.Bool("list", false, "list properties")
	verbose := flag.Bool("v", false, "verbose failures")
	flag.Parse()

	if *list {
		var ids []string
		for id := range props.Registry {
			ids = append(ids, id)
		}
		sort.Strings(ids)
		for _, id := range ids {
			d := props.Registry[id]
			fmt.Printf("%s\t%s\t%s\n", id, d.Engine, strings.Join(d.Configs, ","))
		}
		return
	}
	def := props.Registry[*prop]
	if def == nil {
		fmt.Fprintln(os.Stderr, "unknown property", *prop)
		os.Exit(2)
	}
	seed, _ := strconv.ParseInt(os.Getenv("VERIF_SEED"), 10, 64)
	if *agg {
		o := core.AggOpts{VerifDir: *verif, RunDir: *rundir, Prop: *prop, Tier: *tier, Seed: seed, Level: def.Level, Rule: def.Rule,
			Assume: def.Assume, WallS: *wall, Record: *record, RecordRe: *recordRe, NConfigs: *nconfigs, EvidenceDir: *evdir}
		if *extra != "" {
			if b, err := os.ReadFile(*extra); err == nil {
				json.Unmarshal(b, &o.ExtraCov)
			}
		}
		if *extraFail != "" {
			if b, err := os.ReadFile(*extraFail); err == nil {
				json.Unmarshal(b, &o.ExtraFailures)
			}
		}
		os.Exit(core.Aggregate(o))
	}
	var si, sn int
	fmt.Sscanf(*shard, "%d/%d", &si, &sn)
	if sn == 0 {
		sn = 1
	}
	debug.SetGCPercent(400)
	r := core.NewRun(*prop, *tier, si, sn)
	r.Seed = seed
	r.Config = *config
	r.ReplayCase = *replay
	if *schedule != "" {
		for _, f := range strings.FieldsFunc(*schedule, func(c rune) bool { return c == ',' || c == '[' || c == ']' || c == ' ' }) {
			n, _ := strconv.Atoi(f)
			r.ReplaySchedule = append(r.ReplaySchedule, n)
		}
	}
	if *config != "" && strings.HasSuffix(r.ReplayCase, "|cfg="+*config) {
		r.ReplayCase = strings.TrimSuffix(r.ReplayCase, "|cfg="+*config)
	}
	r.Verbose = *verbose
	if *only != "" {
		r.OnlyRe = regexp.MustCompile(*only)
	}
	if *deadline > 0 {
		r.Deadline = time.Now().Add(time.Duration(*deadline * float64(time.Second)))
	}
	tensor.VerifResetPools()
	def.Run(r)
	if *replay != "" {
		if r.Evaluations == 0 {
			fmt.Println("REPLAY: case id not found in this property's enumeration:", *replay)
			os.Exit(2)
		}
		if r.FailCount > 0 {
			os.Exit(1)
		}
		return
	}
	if *out != "" {
		if err := r.Write(*out); err != nil {
			fmt.Fprintln(os.Stderr, err)
			os.Exit(2)
		}
	} else {
		fmt.Printf("evaluations=%d cases=%d states=%d transitions=%d failing=%d byKind=%v wall=%.1fs cap=%v\n", r.Evaluations, r.NumCases(), r.NumStates(), r.Transitions, r.FailCount, r.FailByKind, r.Elapsed(), r.CapHit)
		for i, f := range r.Failures {
			if i >= 15 {
				break
			}
			fmt.Printf("  FAIL %s kind=%s\n     %s\n", f.Case, f.Kind, f.Detail)
		}
	}
}
