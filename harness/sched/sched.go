// Package sched is a hand-written cooperative scheduler and stateless depth-first explorer with iterative
// preemption bounding (CHESS style) over real goroutines running real library calls. Scheduling points are the
// hooked synchronisation / pool operations of the library (vsync.Mutex Lock/Unlock, vsync.Pool Get/Put, entry of
// every function of perf.go). Between two points exactly one managed goroutine runs.
package sched

import (
	"fmt"
	"runtime"
	"strconv"
	"strings"

	"gorgonia.org/tensor"
)

// Body is one managed thread: it returns a digest of everything it observed.
type Body func() string

type thread struct {
	id        int
	resume    chan struct{}
	done      bool
	result    string
	waitingOn uintptr
	goid      uint64
}

type event struct {
	tid  int
	what string
	done bool
}

// PointRec is one scheduling decision of an execution.
type PointRec struct {
	Enabled        []int // canonical order: running thread first if still enabled, then ascending ids
	Chosen         int   // index into Enabled
	Running        int   // thread that ran up to this point (-1 at the start)
	RunningEnabled bool
	What           string
}

// Exec is the record of one complete execution.
type Exec struct {
	Points   []PointRec
	Choices  []int
	Results  []string
	Deadlock bool
	Monitor  string // first monitor violation ("" if none)
	Diverged string // replay divergence (hard error)
	States   []uint64
}

type Sched struct {
	threads []*thread
	cur     int
	yield   chan event
	held    map[uintptr]int
	monitor func(tid int, what string) string
	stateFn func() uint64
	exec    *Exec
}

func goid() uint64 {
	var buf [64]byte
	n := runtime.Stack(buf[:], false)
	f := strings.Fields(string(buf[:n]))
	if len(f) < 2 {
		return 0
	}
	id, _ := strconv.ParseUint(f[1], 10, 64)
	return id
}

// point is called (through the hooks) by the running managed goroutine at every scheduling point.
func (s *Sched) point(what string) {
	t := s.threads[s.cur]
	if t.goid != goid() {
		return // a call from an unmanaged goroutine passes through
	}
	s.yield <- event{tid: t.id, what: what}
	<-t.resume
}

func (s *Sched) lock(m uintptr) {
	t := s.threads[s.cur]
	if t.goid != goid() {
		return
	}
	for {
		s.point("Mutex.Lock")
		if _, busy := s.held[m]; !busy {
			s.held[m] = t.id
			return
		}
		t.waitingOn = m
		s.yield <- event{tid: t.id, what: "blocked"}
		<-t.resume
		t.waitingOn = 0
	}
}

func (s *Sched) unlock(m uintptr) {
	t := s.threads[s.cur]
	if t.goid != goid() {
		return
	}
	delete(s.held, m)
	s.point("Mutex.Unlock")
}

// Run executes the bodies once under the given choice prefix (choice 0 afterwards).
// setup is called before the threads start (fresh shared state); monitor is evaluated at every point.
func Run(bodies []Body, prefix []int, monitor func(tid int, what string) string, stateFn func() uint64) *Exec {
	s := &Sched{yield: make(chan event), held: map[uintptr]int{}, monitor: monitor, stateFn: stateFn, exec: &Exec{}, cur: 0}
	x := s.exec
	started := make(chan struct{})
	for i, b := range bodies {
		t := &thread{id: i, resume: make(chan struct{})}
		s.threads = append(s.threads, t)
		b := b
		go func() {
			t.goid = goid()
			started <- struct{}{}
			<-t.resume
			func() {
				defer func() {
					if p := recover(); p != nil {
						t.result = fmt.Sprintf("PANIC:%v", p)
					}
				}()
				t.result = b()
			}()
			t.done = true
			s.yield <- event{tid: t.id, done: true}
		}()
		<-started
	}
	tensor.VerifSetHooks(s.point, nil, s.lock, s.unlock, nil)
	defer tensor.VerifSetHooks(nil, nil, nil, nil, nil)
	running := -1
	lastWhat := "start"
	for {
		var enabled []int
		runningEnabled := false
		for _, t := range s.threads {
			if t.done {
				continue
			}
			if t.waitingOn != 0 {
				if _, busy := s.held[t.waitingOn]; busy {
					continue
				}
			}
			if t.id == running {
				runningEnabled = true
			} else {
				enabled = append(enabled, t.id)
			}
		}
		if runningEnabled {
			enabled = append([]int{running}, enabled...)
		}
		if len(enabled) == 0 {
			alldone := true
			for _, t := range s.threads {
				if !t.done {
					alldone = false
				}
			}
			x.Deadlock = !alldone
			break
		}
		choice := 0
		i := len(x.Points)
		if i < len(prefix) {
			choice = prefix[i]
			if choice >= len(enabled) {
				x.Diverged = fmt.Sprintf("replay divergence at point %d: choice %d of %d enabled", i, choice, len(enabled))
				choice = 0
			}
		}
		x.Points = append(x.Points, PointRec{Enabled: enabled, Chosen: choice, Running: running, RunningEnabled: runningEnabled, What: lastWhat})
		x.Choices = append(x.Choices, choice)
		if stateFn != nil {
			x.States = append(x.States, stateFn())
		}
		next := s.threads[enabled[choice]]
		s.cur = next.id
		running = next.id
		next.resume <- struct{}{}
		ev := <-s.yield
		lastWhat = ev.what
		if monitor != nil && x.Monitor == "" {
			if m := monitor(ev.tid, ev.what); m != "" {
				x.Monitor = fmt.Sprintf("at point %d (thread %d at %s): %s", len(x.Points), ev.tid, ev.what, m)
			}
		}
	}
	for _, t := range s.threads {
		x.Results = append(x.Results, t.result)
	}
	return x
}

func (x *Exec) preemptionsBefore(i int) int {
	n := 0
	for j := 0; j < i; j++ {
		p := x.Points[j]
		if p.RunningEnabled && p.Chosen != 0 {
			n++
		}
	}
	return n
}

// Explorer is the stateless DFS with a preemption bound.
type Explorer struct {
	Bound      int
	MaxExecs   int
	Executions int
	Steps      int64
	Capped     bool
	run        func(prefix []int) *Exec
	check      func(x *Exec) bool // returns false to stop
}

func NewExplorer(bound, maxExecs int, run func(prefix []int) *Exec, check func(x *Exec) bool) *Explorer {
	return &Explorer{Bound: bound, MaxExecs: maxExecs, run: run, check: check}
}

func (e *Explorer) Explore(prefix []int) bool {
	if e.MaxExecs > 0 && e.Executions >= e.MaxExecs {
		e.Capped = true
		return false
	}
	x := e.run(prefix)
	e.Executions++
	e.Steps += int64(len(x.Points))
	if !e.check(x) {
		return false
	}
	for i := len(prefix); i < len(x.Points); i++ {
		p := x.Points[i]
		base := x.preemptionsBefore(i)
		for alt := 1; alt < len(p.Enabled); alt++ {
			cost := base
			if p.RunningEnabled {
				cost++ // switching away from a runnable thread is a preemption
			}
			if cost > e.Bound {
				continue
			}
			np := append(append([]int{}, x.Choices[:i]...), alt)
			if !e.Explore(np) {
				return false
			}
		}
	}
	return true
}
