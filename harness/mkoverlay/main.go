// mkoverlay generates a `go build -overlay` description from the CURRENT working tree of the repository:
//   - perf.go, array.go, blas.go: import "sync" rewritten to the vsync shim (everything else byte-identical
//     in meaning: the files are re-printed from their AST), perf.go additionally gets a scheduling point as
//     the first statement of every top-level function;
//   - internal/vsync/vsync.go (virtual package) and zz_verif_*.go (injected into package tensor).
//
// usage: mkoverlay -repo /repo -harness /verif/harness -out /verif/.build/ov [-realsync]
package main

import (
	"bytes"
	"encoding/json"
	"flag"
	"fmt"
	"go/ast"
	"go/format"
	"go/parser"
	"go/token"
	"os"
	"path/filepath"
	"strconv"
)

func die(err error) {
	if err != nil {
		fmt.Fprintln(os.Stderr, "mkoverlay:", err)
		os.Exit(2)
	}
}

func pointStmt(what string) ast.Stmt {
	return &ast.ExprStmt{X: &ast.CallExpr{
		Fun:  &ast.SelectorExpr{X: ast.NewIdent("sync"), Sel: ast.NewIdent("Point")},
		Args: []ast.Expr{&ast.BasicLit{Kind: token.STRING, Value: strconv.Quote(what)}},
	}}
}

// chanStmt: a send statement, a select, or a simple statement containing a channel receive (not looking into nested blocks).
func chanStmt(st ast.Stmt) bool {
	switch s := st.(type) {
	case *ast.SendStmt, *ast.SelectStmt:
		return true
	case *ast.ExprStmt, *ast.AssignStmt:
		found := false
		ast.Inspect(s, func(n ast.Node) bool {
			if u, ok := n.(*ast.UnaryExpr); ok && u.Op == token.ARROW {
				found = true
			}
			return !found
		})
		return found
	}
	return false
}

func main() {
	repo := flag.String("repo", "/repo", "repository root")
	harness := flag.String("harness", "/verif/harness", "harness dir")
	out := flag.String("out", "/verif/.build/ov", "output dir")
	realsync := flag.Bool("realsync", false, "do not rewrite sync (race pass)")
	flag.Parse()
	die(os.MkdirAll(*out, 0o755))
	repl := map[string]string{}
	if !*realsync {
		for _, f := range []string{"perf.go", "array.go", "blas.go"} {
			src := filepath.Join(*repo, f)
			fset := token.NewFileSet()
			af, err := parser.ParseFile(fset, src, nil, parser.ParseComments)
			die(err)
			found := false
			for _, im := range af.Imports {
				if im.Path.Value == `"sync"` {
					im.Path.Value = strconv.Quote("gorgonia.org/tensor/internal/vsync")
					im.Name = ast.NewIdent("sync")
					found = true
				}
			}
			if f == "perf.go" {
				if !found {
					die(fmt.Errorf("perf.go no longer imports sync; cannot hook pools"))
				}
				for _, d := range af.Decls {
					fd, ok := d.(*ast.FuncDecl)
					if !ok || fd.Body == nil || fd.Name.Name == "init" {
						continue
					}
					call := &ast.ExprStmt{X: &ast.CallExpr{
						Fun:  &ast.SelectorExpr{X: ast.NewIdent("sync"), Sel: ast.NewIdent("Point")},
						Args: []ast.Expr{&ast.BasicLit{Kind: token.STRING, Value: strconv.Quote(fd.Name.Name)}},
					}}
					fd.Body.List = append([]ast.Stmt{call}, fd.Body.List...)
					// the channel based pools have no sync call to hook: a scheduling point before and after every
					// statement that sends to or receives from a channel (incl. select), in every nested block
					ast.Inspect(fd.Body, func(n ast.Node) bool {
						var list *[]ast.Stmt
						switch b := n.(type) {
						case *ast.BlockStmt:
							list = &b.List
						case *ast.CaseClause:
							list = &b.Body
						case *ast.CommClause:
							list = &b.Body
						}
						if list == nil {
							return true
						}
						var out []ast.Stmt
						if _, isComm := n.(*ast.CommClause); isComm {
							out = append(out, pointStmt(fd.Name.Name+":chan-done")) // after the communication of this select case
						}
						for _, st := range *list {
							_, isSel := st.(*ast.SelectStmt)
							switch {
							case isSel:
								out = append(out, pointStmt(fd.Name.Name+":chan"), st) // (a point after a terminating select would be unreachable)
							case chanStmt(st):
								out = append(out, pointStmt(fd.Name.Name+":chan"), st, pointStmt(fd.Name.Name+":chan-done"))
							default:
								out = append(out, st)
							}
						}
						*list = out
						return true
					})
				}
			}
			if !found {
				continue
			}
			var buf bytes.Buffer
			die(format.Node(&buf, fset, af))
			dst := filepath.Join(*out, "ov_"+f)
			die(os.WriteFile(dst, buf.Bytes(), 0o644))
			repl[src] = dst
		}
		repl[filepath.Join(*repo, "internal/vsync/vsync.go")] = filepath.Join(*harness, "vsync/vsync.go")
		repl[filepath.Join(*repo, "zz_verif_pools.go")] = filepath.Join(*harness, "inject/zz_verif_pools.go")
	}
	repl[filepath.Join(*repo, "zz_verif_export.go")] = filepath.Join(*harness, "inject/zz_verif_export.go")
	if *realsync {
		repl[filepath.Join(*repo, "zz_verif_pools_real.go")] = filepath.Join(*harness, "inject/zz_verif_pools_real.go")
	}
	b, err := json.MarshalIndent(map[string]interface{}{"Replace": repl}, "", " ")
	die(err)
	name := "overlay.json"
	if *realsync {
		name = "overlay_realsync.json"
	}
	die(os.WriteFile(filepath.Join(*out, name), b, 0o644))
}
