package props

import (
	"fmt"
	"math"
	"strings"

	"gorgonia.org/tensor"
	"verifharness/atlas"
	"verifharness/core"
	"verifharness/ref"
)

// c15ViewGraph: "a mask stays attached to its elements through lazy and physical transposition and through slicing" -
// from NON-INITIAL states too: every view state of the slice/transpose view graph (depth 2) over a masked root, for
// every mask over the root's elements. The model is the view model of C02/C03 (logical coordinate -> root cell); the
// mask bit of a coordinate is the bit of the storage cell it denotes. Each state is read through At/MaskAt at every
// coordinate, and then materialised (Materialize, Clone) - the copies must carry the same (value, masked) pairs.
func c15ViewGraph(r *core.Run) {
	quick := isQuick(r)
	shapes := [][]int{{4}, {2, 3}, {3, 2}, {2, 2, 2}}
	depth := 2
	if !quick {
		shapes = append(shapes, []int{1, 4}, []int{4, 1}, []int{2, 4}, []int{3, 3})
	}
	r.SetBound("mask_view_graph", fmt.Sprintf("shapes %v x every mask (<= 8 elements; 32 patterns above) x every slice/transpose view state to depth %d, read by At/MaskAt, Materialize and Clone", shapes, depth))
	d := ref.Float64
	for _, shape := range shapes {
		n := ref.Prod(shape)
		paths := atlas.ViewStates(shape, false, depth, true)
		var masks []int
		if n <= 8 {
			for m := 0; m < 1<<uint(n); m++ {
				masks = append(masks, m)
			}
		} else {
			for k := 0; k < 32; k++ {
				masks = append(masks, (k*0x9d)&(1<<uint(n)-1))
			}
		}
		for _, mb := range masks {
			if !r.Take() {
				continue
			}
			if r.Expired() {
				return
			}
			for _, path := range paths {
				path, mb := path, mb
				id := fmt.Sprintf("C15|vg|%s|%s|mask=%0*b", shapeStr(shape), atlas.PathString(path), n, mb)
				if r.ReplayCase != "" && id != r.ReplayCase {
					continue
				}
				r.Case(id, len(path) >= 1, func() *core.Fail {
					tensor.VerifResetPools()
					back := make([]float64, n)
					mask := make([]bool, n)
					for i := range back {
						back[i] = float64(i + 1)
						mask[i] = mb&(1<<uint(i)) != 0
					}
					rt := tensor.New(tensor.WithShape(shape...), tensor.WithBacking(back, mask))
					b := &atlas.Built{DT: d, Layout: "vg", T: rt, Root: back, RootT: rt, View: ref.RootC(shape)}
					for _, st := range path {
						var nb *atlas.Built
						var res atlas.ApplyResult
						if o := call(func() error { nb, res = b.Apply(st); return nil }); o.Class != "ok" || res.Class != "ok" {
							r.Outcome("vg:unbuildable")
							return nil // refusals and shape questions are C02/C03's subject
						}
						b = nb
						r.Op(1)
					}
					// only states whose access pattern agrees with the model (C02/C03 report the others)
					if cells, ok := b.APCells(); !ok || !ref.EqInts(cells, b.View.Cell) {
						r.Outcome("vg:ap-differs")
						return nil
					}
					r.State(atlas.StateKey(b.T, 0))
					check := func(what string, t *tensor.Dense) *core.Fail {
						if !ref.EqInts(t.Shape(), b.View.Shape) {
							return nil
						}
						if !t.IsMasked() {
							if mb == 0 {
								return nil
							}
							any := false
							for _, c := range b.View.Cell {
								any = any || mask[c]
							}
							if !any {
								return nil
							}
							return core.F("wrong-mask", what+":lost", "%s of view state %s of a masked %v tensor (mask %s) is unmasked although the view holds masked elements", what, atlas.PathString(path), shape, bitsOf(mask))
						}
						i := 0
						var fail *core.Fail
						ref.ForCoords(b.View.Shape, func(c []int) {
							if fail != nil {
								return
							}
							cell := b.View.Cell[i]
							i++
							var v interface{}
							var m bool
							var e1, e2 error
							if o := call(func() error { v, e1 = t.At(c...); m, e2 = t.MaskAt(c...); return nil }); o.Class != "ok" || e1 != nil || e2 != nil {
								fail = core.F("wrong-mask", what+":unreadable", "%s of view state %s: At/MaskAt(%v) failed: %v %v %s", what, atlas.PathString(path), c, e1, e2, o)
								return
							}
							if v != back[cell] || m != mask[cell] {
								fail = core.F("wrong-mask", fmt.Sprintf("%s:c%d", what, i-1), "%s of view state %s of shape %v mask %s: coordinate %v has (value %v, masked %v), expected (%v, %v)", what, atlas.PathString(path), shape, bitsOf(mask), c, v, m, back[cell], mask[cell])
							}
						})
						return fail
					}
					if f := check("state", b.T); f != nil {
						return f
					}
					r.Outcome("vg:ok")
					var mt, cl *tensor.Dense
					if o := call(func() error { mt = b.T.Materialize().(*tensor.Dense); return nil }); o.Class == "ok" && mt != nil {
						r.Op(1)
						if f := check("Materialize", mt); f != nil {
							return f
						}
					}
					if o := call(func() error { cl = b.T.Clone().(*tensor.Dense); return nil }); o.Class == "ok" && cl != nil {
						r.Op(1)
						if f := check("Clone", cl); f != nil {
							return f
						}
					}
					// writing a mask bit through the view state: SetMaskAt toggles exactly the bit of the element the coordinate
					// denotes (seen through the root), and nothing else
					if b.T.IsMasked() && rt.IsMasked() {
						i := 0
						var fail *core.Fail
						mask := append([]bool{}, mask...) // the tensor was built over the slice itself: keep the original bits
						ref.ForCoords(b.View.Shape, func(c []int) {
							if fail != nil {
								return
							}
							cell := b.View.Cell[i]
							i++
							before := append([]bool{}, rt.Mask()...)
							var e error
							if o := call(func() error { e = b.T.SetMaskAt(!mask[cell], c...); return nil }); o.Class != "ok" || e != nil {
								fail = core.F("wrong-mask", "setmaskat:refused", "SetMaskAt(%v) on view state %s: %v %s", c, atlas.PathString(path), e, o)
								return
							}
							r.Op(1)
							after := rt.Mask()
							for k := range before {
								want := before[k]
								if k == cell {
									want = !mask[cell]
								}
								if k >= len(after) || after[k] != want {
									fail = core.F("wrong-mask", fmt.Sprintf("setmaskat:c%d", i-1), "SetMaskAt(%v, %v) on view state %s of shape %v: root mask %s -> %s, expected only the bit of element %d to become %v", !mask[cell], c, atlas.PathString(path), shape, bitsOf(before), bitsOf(after), cell, !mask[cell])
									return
								}
							}
							call(func() error { return b.T.SetMaskAt(mask[cell], c...) })
						})
						if fail != nil {
							return fail
						}
					}
					return nil
				})
			}
		}
	}
}

// c15AttachWidths: the data of a physical transposition is moved by one kernel per element width (1, 2, 4, 8 bytes, a
// generic one for 16 bytes, one for strings): the mask must move with the elements under every one of them.
func c15AttachWidths(r *core.Run) {
	dts := []ref.DT{ref.Bool, ref.Uint8, ref.Int16, ref.Float32, ref.Int64, ref.Complex128, ref.String}
	shapes := [][]int{{2, 3}, {2, 2, 2}}
	r.SetBound("attachment_widths", fmt.Sprintf("element types %v x shapes %v x every mask x {T+Transpose, T+Materialize, T+Clone+Transpose}", dts, shapes))
	for _, d := range dts {
		for _, shape := range shapes {
			n := ref.Prod(shape)
			for mb := 0; mb < 1<<uint(n); mb++ {
				if !r.Take() {
					continue
				}
				if r.Expired() {
					return
				}
				for _, op := range []string{"T+Transpose", "T+Materialize", "T+Clone+Transpose"} {
					d, shape, mb, op := d, shape, mb, op
					id := fmt.Sprintf("C15|attach-width|%s|%s|%s|mask=%0*b", d.Name, op, shapeStr(shape), n, mb)
					if r.ReplayCase != "" && id != r.ReplayCase {
						continue
					}
					r.Case(id, true, func() *core.Fail {
						tensor.VerifResetPools()
						back := d.MakeSlice(n)
						mask := make([]bool, n)
						vals := make([]interface{}, n)
						marr := ref.Arr{DT: ref.Bool, Shape: shape, El: make([]interface{}, n)}
						for i := 0; i < n; i++ {
							vals[i] = d.Code(i + 1)
							ref.SliceSet(back, i, vals[i])
							mask[i] = mb&(1<<uint(i)) != 0
							marr.El[i] = mask[i]
						}
						t := tensor.New(tensor.WithShape(shape...), tensor.WithBacking(back, mask))
						rk := len(shape)
						wv := ref.Arr{DT: d, Shape: shape, El: vals}.Permute(ref.Reversal(rk))
						wm := marr.Permute(ref.Reversal(rk))
						var res *tensor.Dense
						o := call(func() (e error) {
							if e = t.T(); e != nil {
								return
							}
							switch op {
							case "T+Transpose":
								e = t.Transpose()
								res = t
							case "T+Materialize":
								res = t.Materialize().(*tensor.Dense)
							case "T+Clone+Transpose":
								res = t.Clone().(*tensor.Dense)
								e = res.Transpose()
							}
							return
						})
						r.Op(1)
						r.Outcome("attach-width:" + op + ":" + o.Class)
						if o.Class != "ok" || res == nil || !ref.EqInts(res.Shape(), wv.Shape) {
							return nil
						}
						if !res.IsMasked() {
							if mb == 0 {
								return nil
							}
							return core.F("wrong-mask", "lost", "%s of a masked %s tensor (mask %s) returns an unmasked tensor", op, d.Name, bitsOf(mask))
						}
						i := 0
						var fail *core.Fail
						ref.ForCoords(wv.Shape, func(c []int) {
							if fail != nil {
								return
							}
							v, e1 := res.At(c...)
							m, e2 := res.MaskAt(c...)
							if e1 != nil || e2 != nil {
								fail = core.F("wrong-mask", "unreadable", "%s: At/MaskAt(%v) failed: %v %v", op, c, e1, e2)
							} else if !ref.Same(v, wv.El[i]) || m != wm.El[i].(bool) {
								fail = core.F("wrong-mask", fmt.Sprintf("c%d", i), "%s of a %s tensor of shape %v mask %s: coordinate %v has (value %s, masked %v), expected (%s, %v)", op, d.Name, shape, bitsOf(mask), c, ref.Fmt(v), m, ref.Fmt(wv.El[i]), wm.El[i])
							}
							i++
						})
						return fail
					})
				}
			}
		}
	}
}

// c15Unmasked: a tensor without a mask is the all-valid case of every inspection function.
func c15Unmasked(r *core.Run) {
	for _, shape := range [][]int{{1}, {2}, {4}, {5}, {2, 3}, {2, 2, 2}} {
		if !r.Take() {
			continue
		}
		shape := shape
		n := ref.Prod(shape)
		r.Case(fmt.Sprintf("C15|inspect-unmasked|%s", shapeStr(shape)), true, func() *core.Fail {
			tensor.VerifResetPools()
			back := make([]float64, n)
			for i := range back {
				back[i] = float64(i + 1)
			}
			t := tensor.New(tensor.WithShape(shape...), tensor.WithBacking(back))
			var fails []string
			chk := func(what string, got, want interface{}) {
				if fmt.Sprint(got) != fmt.Sprint(want) {
					fails = append(fails, fmt.Sprintf("%s = %v, expected %v", what, got, want))
				}
			}
			o := call(func() error {
				chk("MaskedCount", t.MaskedCount(), 0)
				chk("NonMaskedCount", t.NonMaskedCount(), n)
				chk("MaskedAny", t.MaskedAny(), false)
				chk("MaskedAll", t.MaskedAll(), false)
				chk("FlatNotMaskedContiguous", fmtSlices(t.FlatNotMaskedContiguous()), fmt.Sprintf("[0:%d]", n))
				chk("FlatMaskedContiguous", fmtSlices(t.FlatMaskedContiguous()), "[]")
				a, b := t.FlatNotMaskedEdges()
				chk("FlatNotMaskedEdges", []int{a, b}, []int{0, n - 1})
				a, b = t.FlatMaskedEdges()
				chk("FlatMaskedEdges", []int{a, b}, []int{-1, -1})
				return nil
			})
			r.Op(8)
			r.Outcome("inspect-unmasked:" + o.Class)
			if o.Class != "ok" {
				return core.F("unexpected-refusal", "x", "inspection of an unmasked tensor of shape %v: %s", shape, o)
			}
			if len(fails) > 0 {
				return core.F("wrong-mask-query", strings.Join(fails, ";"), "unmasked tensor of shape %v (every element valid): %s", shape, strings.Join(fails, "; "))
			}
			return nil
		})
	}
}

func fmtSlices(sl []tensor.Slice) string {
	parts := make([]string, len(sl))
	for i, x := range sl {
		parts[i] = fmt.Sprintf("%d:%d", x.Start(), x.End())
	}
	return "[" + strings.Join(parts, " ") + "]"
}

// c15PredViews: the predicates applied FROM NON-INITIAL STATES: to every slice/transpose view state (depth <= 2) of a
// root that is unmasked, or carries a prior mask. The view's own elements are judged through At/MaskAt at every
// coordinate (exactly the satisfying elements are marked; a hard mask only gains marks); the root's data is unchanged
// and the mask bits of root elements that lie OUTSIDE the view keep their value.
func c15PredViews(r *core.Run) {
	quick := isQuick(r)
	shapes := [][]int{{4}, {2, 3}, {2, 2, 2}}
	if !quick {
		shapes = append(shapes, []int{3, 2}, []int{3, 3}, []int{1, 4}, []int{4, 1})
	}
	preds := []string{"MaskedGreater", "MaskedInside", "MaskedEqual"}
	if !quick {
		preds = nil
		for _, p := range maskPreds {
			preds = append(preds, p.name)
		}
	}
	preds = append(preds, "ResetMask") // not a predicate, but the same kind of whole-mask write: clears the view's bits only
	r.SetBound("pred_view_graph", fmt.Sprintf("shapes %v x every slice/transpose view state to depth 2 x predicates %v x {float64, int32} x {unmasked root, root with prior mask 0101.., 0011..} x {hard, soft}", shapes, preds))
	for _, d := range []ref.DT{ref.Float64, ref.Int32} {
		for _, shape := range shapes {
			n := ref.Prod(shape)
			paths := atlas.ViewStates(shape, false, 2, true)
			for _, pn := range preds {
				var p maskPred
				for _, q := range maskPreds {
					if q.name == pn {
						p = q
					}
				}
				if pn == "ResetMask" {
					p = maskPred{"ResetMask", false, func(a, x, y interface{}) bool { return false }}
				}
				if !r.Take() {
					continue
				}
				if r.Expired() {
					return
				}
				for _, path := range paths {
					for prior := 0; prior < 3; prior++ {
						for _, soft := range []bool{false, true} {
							path, prior, soft, p, d, shape := path, prior, soft, p, d, shape
							id := fmt.Sprintf("C15|predvg|%s|%s|%s|%s|prior=%d|soft=%v", p.name, d.Name, shapeStr(shape), atlas.PathString(path), prior, soft)
							if r.ReplayCase != "" && id != r.ReplayCase {
								continue
							}
							r.Case(id, true, func() *core.Fail {
								tensor.VerifResetPools()
								vals := rampVals(d, n)
								back := d.MakeSlice(n)
								for i, v := range vals {
									ref.SliceSet(back, i, v)
								}
								pm := make([]bool, n)
								var rt *tensor.Dense
								if prior > 0 {
									for i := range pm {
										if prior == 1 {
											pm[i] = i%2 == 1
										} else {
											pm[i] = i%4 >= 2
										}
									}
									rt = tensor.New(tensor.WithShape(shape...), tensor.WithBacking(back, append([]bool{}, pm...)))
								} else {
									rt = tensor.New(tensor.WithShape(shape...), tensor.WithBacking(back))
								}
								b := &atlas.Built{DT: d, Layout: "vg", T: rt, Root: back, RootT: rt, View: ref.RootC(shape)}
								for _, st := range path {
									var nb *atlas.Built
									var res atlas.ApplyResult
									if o := call(func() error { nb, res = b.Apply(st); return nil }); o.Class != "ok" || res.Class != "ok" {
										return nil
									}
									b = nb
								}
								if cells, ok := b.APCells(); !ok || !ref.EqInts(cells, b.View.Cell) {
									return nil // C02/C03 report states whose access pattern differs from the model
								}
								if prior > 0 && !b.T.IsMasked() {
									return nil // c15ViewGraph reports a lost mask
								}
								if soft {
									b.T.SoftenMask()
								} else {
									b.T.HardenMask()
								}
								x, y := d.Code(n/3), d.Code(n/3+n/2)
								o := callPred(b.T, p.name, x, y)
								r.Op(1)
								r.Outcome("predvg:" + o.Class)
								// DEFECT preconditions (see known_findings.jsonl F-C15-pred-view-window): the predicate kernels walk the
								// view's raw storage window instead of its elements
								win := len(b.View.Cell) > 0 && !isDenseWindow(b.View.Cell)
								if m := tensor.VerifMetaOf(b.T); m.ElSize > 0 && m.RawLen/m.ElSize > len(b.View.Cell) {
									win = true // the storage window holds more cells than the view has elements (slack behind a stepped range)
								}
								kf := func(f *core.Fail) *core.Fail {
									if win {
										f.Kind += "[KF:pred-view-window]"
									}
									return f
								}
								if o.Class != "ok" {
									return (core.F("unexpected-refusal", "x", "%s on view state %s of a %v %s tensor (prior mask %d, soft %v): %s", p.name, atlas.PathString(path), shape, d.Name, prior, soft, o))
								}
								for i, v := range vals {
									if !ref.Same(ref.SliceGet(back, i), v) {
										return core.F("operand-changed", "data", "%s on view state %s changed root element %d", p.name, atlas.PathString(path), i)
									}
								}
								inView := make([]bool, n)
								i := 0
								var fail *core.Fail
								ref.ForCoords(b.View.Shape, func(c []int) {
									if fail != nil {
										return
									}
									cell := b.View.Cell[i]
									i++
									inView[cell] = true
									want := p.f(vals[cell], x, y)
									if !soft && p.name != "ResetMask" {
										want = want || pm[cell]
									}
									var m bool
									var e error
									if oc := call(func() error { m, e = b.T.MaskAt(c...); return nil }); oc.Class != "ok" || e != nil {
										fail = core.F("wrong-mask", "unreadable", "%s on view state %s: MaskAt(%v) failed: %v %s", p.name, atlas.PathString(path), c, e, oc)
										return
									}
									if m != want {
										fail = core.F("wrong-mask", fmt.Sprintf("c%d", i-1), "%s(%s,%s) on view state %s of a %v %s tensor %s (prior mask %s, soft %v): coordinate %v (value %s) masked=%v, expected %v", p.name, ref.Fmt(x), ref.Fmt(y), atlas.PathString(path), shape, d.Name, ref.FmtEls(vals), bitsOf(pm), soft, c, ref.Fmt(vals[cell]), m, want)
									}
								})
								if fail != nil {
									return fail
								}
								if prior > 0 {
									rm := rt.Mask()
									if len(rm) != n {
										return core.F("wrong-mask", "rootlen", "%s on a view changed the root's mask length to %d", p.name, len(rm))
									}
									for c := 0; c < n; c++ {
										if !inView[c] && rm[c] != pm[c] {
											return kf(core.F("wrong-mask", fmt.Sprintf("outside%d", c), "%s(%s,%s) on view state %s of a %v %s tensor (soft %v): root element %d lies outside the view but its mask bit changed from %v to %v", p.name, ref.Fmt(x), ref.Fmt(y), atlas.PathString(path), shape, d.Name, soft, c, pm[c], rm[c]))
										}
									}
								}
								return nil
							})
						}
					}
				}
			}
		}
	}
}

// isDenseWindow: the cells form the full interval [min, max] (the view covers its whole storage window).
func isDenseWindow(cells []int) bool {
	lo, hi := cells[0], cells[0]
	for _, c := range cells {
		if c < lo {
			lo = c
		}
		if c > hi {
			hi = c
		}
	}
	return hi-lo+1 == len(cells)
}

// c15Values: the by-values predicate |a - x| <= atol + rtol*|x| for reference values of either sign and zero, hard
// and soft, plus the two-argument form on elements that are either equal to the reference or far from it.
func c15Values(r *core.Run) {
	els := []float64{-3, -2.5, -2, -1.5, -1, -0.5, 0, 0.04, 0.5, 1, 1.05, 1.5, 2, 2.5, 3}
	refs := []float64{1, -2, 0, -0.5, 2.5}
	tols := [][2]float64{{0.1, 0.01}, {0.5, 0}, {0, 0.25}, {0.25, 0.5}}
	r.SetBound("by_values", fmt.Sprintf("elements %v x reference %v x (rtol, atol) %v x {float32, float64} x {hard with prior mask, soft} + two-argument form", els, refs, tols))
	for _, d := range []ref.DT{ref.Float32, ref.Float64} {
		for _, x := range refs {
			for ti := -1; ti < len(tols); ti++ {
				for _, soft := range []bool{false, true} {
					if !r.Take() {
						continue
					}
					d, x, ti, soft := d, x, ti, soft
					id := fmt.Sprintf("C15|values|%s|x=%v|tol=%d|soft=%v", d.Name, x, ti, soft)
					if r.ReplayCase != "" && id != r.ReplayCase {
						continue
					}
					r.Case(id, true, func() *core.Fail {
						tensor.VerifResetPools()
						n := len(els)
						pm := make([]bool, n)
						pm[1], pm[8] = true, true
						var back interface{}
						cv := func(f float64) interface{} {
							if d.Name == "float32" {
								return float32(f)
							}
							return f
						}
						if d.Name == "float32" {
							b := make([]float32, n)
							for i, e := range els {
								b[i] = float32(e)
							}
							back = b
						} else {
							back = append([]float64{}, els...)
						}
						t := tensor.New(tensor.WithShape(n), tensor.WithBacking(back, append([]bool{}, pm...)))
						if soft {
							t.SoftenMask()
						}
						var o Outcome
						var rtol, atol float64
						if ti >= 0 {
							rtol, atol = tols[ti][0], tols[ti][1]
							o = call(func() error { return t.MaskedValues(cv(x), cv(rtol), cv(atol)) })
						} else {
							rtol = 0.001
							o = call(func() error { return t.MaskedValues(cv(x), cv(rtol)) })
						}
						r.Op(1)
						if o.Class != "ok" {
							return core.F("unexpected-refusal", "x", "MaskedValues(%v, %v, %v) refused: %s", x, rtol, atol, o)
						}
						got := t.Mask()
						for i, a := range els {
							diff := a - x
							if diff < 0 {
								diff = -diff
							}
							ax := x
							if ax < 0 {
								ax = -ax
							}
							band := atol + rtol*ax
							if ti < 0 {
								// two-argument form: only elements equal to the reference or far from it are judged
								if diff != 0 && diff < 0.01 {
									continue
								}
								band = 1e-8
							}
							if d := diff - band; d > -1e-6 && d < 1e-6 && diff != 0 {
								continue // on the edge of the band: rounding decides
							}
							want := diff <= band
							if !soft {
								want = want || pm[i]
							}
							if got[i] != want {
								return core.F("wrong-mask", fmt.Sprintf("b%d", i), "MaskedValues(%v, rtol %v, atol %v) %s soft=%v on %v: mask %s, element %d (value %v, |a-x| = %v, band %v) should be %v", x, rtol, atol, d.Name, soft, els, bitsOf(got), i, a, diff, band, want)
							}
						}
						return nil
					})
				}
			}
		}
	}
}

// c15SharedTranspose: "a mask stays attached to its elements through physical transposition" seen from the OTHER tensor:
// a root and a view of it share storage and mask; after one of them is physically transposed (the data moves in the
// shared storage), the set of (value, masked) pairs read through the other one is still the original one - every value
// that was masked still is, wherever it now sits.
func c15SharedTranspose(r *core.Run) {
	shapes := [][]int{{2, 3}, {3, 2}, {2, 2}, {2, 3, 2}}
	r.SetBound("shared_mask_physical_transposition", fmt.Sprintf("shapes %v x every mask (<= 6 elements; 32 patterns above) x view {whole, leading rows} x which one is physically transposed {root, view} x {float64, string}", shapes))
	for _, d := range []ref.DT{ref.Float64, ref.String} {
		for _, shape := range shapes {
			n := ref.Prod(shape)
			var masks []int
			if n <= 6 {
				for m := 0; m < 1<<uint(n); m++ {
					masks = append(masks, m)
				}
			} else {
				for k := 0; k < 32; k++ {
					masks = append(masks, (k*0x9d)&(1<<uint(n)-1))
				}
			}
			for _, vk := range []string{"whole", "rows"} {
				for _, who := range []string{"root", "view"} {
					if !r.Take() {
						continue
					}
					for _, mb := range masks {
						d, shape, vk, who, mb := d, shape, vk, who, mb
						id := fmt.Sprintf("C15|shared-transpose|%s|%s|%s|%s|mask=%0*b", d.Name, shapeStr(shape), vk, who, n, mb)
						if r.ReplayCase != "" && id != r.ReplayCase {
							continue
						}
						r.Case(id, true, func() *core.Fail {
							tensor.VerifResetPools()
							back := d.MakeSlice(n)
							mask := make([]bool, n)
							maskedVal := map[string]bool{}
							for i := 0; i < n; i++ {
								ref.SliceSet(back, i, d.Code(i+1))
								mask[i] = mb&(1<<uint(i)) != 0
								maskedVal[ref.Fmt(d.Code(i+1))] = mask[i]
							}
							root := tensor.New(tensor.WithShape(shape...), tensor.WithBacking(back, append([]bool{}, mask...)))
							var v *tensor.Dense
							var err error
							var sv tensor.View
							if vk == "whole" {
								sv, err = root.Slice(nil)
							} else {
								if shape[0] < 2 {
									return nil
								}
								sv, err = root.Slice(tensor.S(0, shape[0]))
							}
							if err != nil {
								return nil
							}
							v = sv.(*tensor.Dense)
							mover, other := root, v
							if who == "view" {
								mover, other = v, root
							}
							if o := call(func() error {
								if e := mover.T(); e != nil {
									return e
								}
								return mover.Transpose()
							}); o.Class != "ok" {
								return nil // C03/C04 judge refusals of transposition
							}
							r.Op(1)
							// read every element through the OTHER tensor (its pattern is the old one; the data has moved under it)
							var fail *core.Fail
							seen := 0
							ref.ForCoords(other.Shape(), func(c []int) {
								if fail != nil {
									return
								}
								var val interface{}
								var m bool
								var e1, e2 error
								if o := call(func() error { val, e1 = other.At(c...); m, e2 = other.MaskAt(c...); return nil }); o.Class != "ok" || e1 != nil || e2 != nil {
									fail = core.F("wrong-mask", "unreadable", "after the physical transposition of the %s, At/MaskAt(%v) on the other tensor failed: %v %v %s", who, c, e1, e2, o)
									return
								}
								want, known := maskedVal[ref.Fmt(val)]
								if !known {
									return // the element was overwritten (C04's recorded finding for views): not this check's subject
								}
								seen++
								if m != want {
									fail = core.F("wrong-mask", fmt.Sprintf("v%s", ref.Fmt(val)), "root %v %s mask %s, view %s; after the physical transposition of the %s the other tensor reads value %s at %v as masked=%v, it was %v: the mask did not move with the elements for the tensor that shares it", shape, d.Name, bitsOf(mask), vk, who, ref.Fmt(val), c, m, want)
								}
							})
							return fail
						})
					}
				}
			}
		}
	}
}

// c15NaN: the predicates on float tensors that hold NaN elements, and with a NaN bound: a NaN satisfies no ordered
// comparison and equals nothing (it is "not equal" to everything), exactly as Go's operators say - also when a
// predicate is written as the complement of its opposite.
func c15NaN(r *core.Run) {
	r.SetBound("nan_predicates", "9 predicates x {float32, float64} x {hard with prior mask, soft with prior mask, no prior mask} x elements [0 1 NaN 3 4 NaN 6] x bounds {(3,5), (NaN,5), (3,NaN)}")
	nan := math.NaN()
	for _, p := range maskPreds {
		for _, d := range []ref.DT{ref.Float32, ref.Float64} {
			if !r.Take() {
				continue
			}
			for _, soft := range []bool{false, true} {
				for _, prior := range []int{-1, 0x24, 0x5b} {
					for bi, bnd := range [][2]float64{{3, 5}, {nan, 5}, {3, nan}} {
						p, d, soft, prior, bi, bnd := p, d, soft, prior, bi, bnd
						id := fmt.Sprintf("C15|nan|%s|%s|soft=%v|prior=%d|b%d", p.name, d.Name, soft, prior, bi)
						if r.ReplayCase != "" && id != r.ReplayCase {
							continue
						}
						r.Case(id, true, func() *core.Fail {
							tensor.VerifResetPools()
							fv := []float64{0, 1, nan, 3, 4, nan, 6}
							n := len(fv)
							vals := make([]interface{}, n)
							back := d.MakeSlice(n)
							for i, f := range fv {
								vals[i] = ref.FromFloat(d, f)
								ref.SliceSet(back, i, vals[i])
							}
							pm := make([]bool, n)
							var t *tensor.Dense
							if prior >= 0 {
								for i := range pm {
									pm[i] = prior&(1<<uint(i)) != 0
								}
								t = tensor.New(tensor.WithShape(n), tensor.WithBacking(back, append([]bool{}, pm...)))
							} else {
								t = tensor.New(tensor.WithShape(n), tensor.WithBacking(back))
							}
							if soft {
								t.SoftenMask()
							} else {
								t.HardenMask()
							}
							x, y := ref.FromFloat(d, bnd[0]), ref.FromFloat(d, bnd[1])
							o := callPred(t, p.name, x, y)
							r.Op(1)
							if o.Class != "ok" {
								return core.F("unexpected-refusal", "x", "%s on a %s tensor with NaN elements refused: %s", p.name, d.Name, o)
							}
							got := t.Mask()
							if len(got) != n {
								return core.F("wrong-mask", "len", "mask length %d expected %d", len(got), n)
							}
							for i := range vals {
								want := p.f(vals[i], x, y)
								if !soft {
									want = want || pm[i]
								}
								if got[i] != want {
									return core.F("wrong-mask", fmt.Sprintf("b%d", i), "%s(%v,%v) soft=%v prior=%s on %v: mask %s, bit %d (element %v) should be %v", p.name, bnd[0], bnd[1], soft, bitsOf(pm), fv, bitsOf(got), i, fv[i], want)
								}
							}
							return nil
						})
					}
				}
			}
		}
	}
}
