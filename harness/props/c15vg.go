package props

import (
	"fmt"
	"strings"

	"gorgonia.org/tensor"
	"verifharness/atlas"
	"verifharness/core"
	"verifharness/ref"
)

// c15ViewGraph: "a mask stays attached to its elements through lazy and physical transposition and through slicing" -
// from NON-INITIAL states too: every view state of the slice/transpose view graph (depth 2) over a masked root, for
// every mask over the root's elements. The model is the view model of C02/C03 (logical coordinate -> root cell); the
// mask bit of a coordinate is the bit of the storage cell it denotes. Each state is read through At/MaskAt at every
// coordinate, and then materialised (Materialize, Clone) - the copies must carry the same (value, masked) pairs.
func c15ViewGraph(r *core.Run) {
	quick := isQuick(r)
	shapes := [][]int{{4}, {2, 3}, {3, 2}, {2, 2, 2}}
	depth := 2
	if !quick {
		shapes = append(shapes, []int{1, 4}, []int{4, 1}, []int{2, 4}, []int{3, 3})
	}
	r.SetBound("mask_view_graph", fmt.Sprintf("shapes %v x every mask (<= 8 elements; 32 patterns above) x every slice/transpose view state to depth %d, read by At/MaskAt, Materialize and Clone", shapes, depth))
	d := ref.Float64
	for _, shape := range shapes {
		n := ref.Prod(shape)
		paths := atlas.ViewStates(shape, false, depth, true)
		var masks []int
		if n <= 8 {
			for m := 0; m < 1<<uint(n); m++ {
				masks = append(masks, m)
			}
		} else {
			for k := 0; k < 32; k++ {
				masks = append(masks, (k*0x9d)&(1<<uint(n)-1))
			}
		}
		for _, mb := range masks {
			if !r.Take() {
				continue
			}
			if r.Expired() {
				return
			}
			for _, path := range paths {
				path, mb := path, mb
				id := fmt.Sprintf("C15|vg|%s|%s|mask=%0*b", shapeStr(shape), atlas.PathString(path), n, mb)
				if r.ReplayCase != "" && id != r.ReplayCase {
					continue
				}
				r.Case(id, len(path) >= 1, func() *core.Fail {
					tensor.VerifResetPools()
					back := make([]float64, n)
					mask := make([]bool, n)
					for i := range back {
						back[i] = float64(i + 1)
						mask[i] = mb&(1<<uint(i)) != 0
					}
					rt := tensor.New(tensor.WithShape(shape...), tensor.WithBacking(back, mask))
					b := &atlas.Built{DT: d, Layout: "vg", T: rt, Root: back, RootT: rt, View: ref.RootC(shape)}
					for _, st := range path {
						var nb *atlas.Built
						var res atlas.ApplyResult
						if o := call(func() error { nb, res = b.Apply(st); return nil }); o.Class != "ok" || res.Class != "ok" {
							r.Outcome("vg:unbuildable")
							return nil // refusals and shape questions are C02/C03's subject
						}
						b = nb
						r.Op(1)
					}
					// only states whose access pattern agrees with the model (C02/C03 report the others)
					if cells, ok := b.APCells(); !ok || !ref.EqInts(cells, b.View.Cell) {
						r.Outcome("vg:ap-differs")
						return nil
					}
					r.State(atlas.StateKey(b.T, 0))
					check := func(what string, t *tensor.Dense) *core.Fail {
						if !ref.EqInts(t.Shape(), b.View.Shape) {
							return nil
						}
						if !t.IsMasked() {
							if mb == 0 {
								return nil
							}
							any := false
							for _, c := range b.View.Cell {
								any = any || mask[c]
							}
							if !any {
								return nil
							}
							return core.F("wrong-mask", what+":lost", "%s of view state %s of a masked %v tensor (mask %s) is unmasked although the view holds masked elements", what, atlas.PathString(path), shape, bitsOf(mask))
						}
						i := 0
						var fail *core.Fail
						ref.ForCoords(b.View.Shape, func(c []int) {
							if fail != nil {
								return
							}
							cell := b.View.Cell[i]
							i++
							var v interface{}
							var m bool
							var e1, e2 error
							if o := call(func() error { v, e1 = t.At(c...); m, e2 = t.MaskAt(c...); return nil }); o.Class != "ok" || e1 != nil || e2 != nil {
								fail = core.F("wrong-mask", what+":unreadable", "%s of view state %s: At/MaskAt(%v) failed: %v %v %s", what, atlas.PathString(path), c, e1, e2, o)
								return
							}
							if v != back[cell] || m != mask[cell] {
								fail = core.F("wrong-mask", fmt.Sprintf("%s:c%d", what, i-1), "%s of view state %s of shape %v mask %s: coordinate %v has (value %v, masked %v), expected (%v, %v)", what, atlas.PathString(path), shape, bitsOf(mask), c, v, m, back[cell], mask[cell])
							}
						})
						return fail
					}
					if f := check("state", b.T); f != nil {
						return f
					}
					r.Outcome("vg:ok")
					var mt, cl *tensor.Dense
					if o := call(func() error { mt = b.T.Materialize().(*tensor.Dense); return nil }); o.Class == "ok" && mt != nil {
						r.Op(1)
						if f := check("Materialize", mt); f != nil {
							return f
						}
					}
					if o := call(func() error { cl = b.T.Clone().(*tensor.Dense); return nil }); o.Class == "ok" && cl != nil {
						r.Op(1)
						if f := check("Clone", cl); f != nil {
							return f
						}
					}
					return nil
				})
			}
		}
	}
}

// c15AttachWidths: the data of a physical transposition is moved by one kernel per element width (1, 2, 4, 8 bytes, a
// generic one for 16 bytes, one for strings): the mask must move with the elements under every one of them.
func c15AttachWidths(r *core.Run) {
	dts := []ref.DT{ref.Bool, ref.Uint8, ref.Int16, ref.Float32, ref.Int64, ref.Complex128, ref.String}
	shapes := [][]int{{2, 3}, {2, 2, 2}}
	r.SetBound("attachment_widths", fmt.Sprintf("element types %v x shapes %v x every mask x {T+Transpose, T+Materialize, T+Clone+Transpose}", dts, shapes))
	for _, d := range dts {
		for _, shape := range shapes {
			n := ref.Prod(shape)
			for mb := 0; mb < 1<<uint(n); mb++ {
				if !r.Take() {
					continue
				}
				if r.Expired() {
					return
				}
				for _, op := range []string{"T+Transpose", "T+Materialize", "T+Clone+Transpose"} {
					d, shape, mb, op := d, shape, mb, op
					id := fmt.Sprintf("C15|attach-width|%s|%s|%s|mask=%0*b", d.Name, op, shapeStr(shape), n, mb)
					if r.ReplayCase != "" && id != r.ReplayCase {
						continue
					}
					r.Case(id, true, func() *core.Fail {
						tensor.VerifResetPools()
						back := d.MakeSlice(n)
						mask := make([]bool, n)
						vals := make([]interface{}, n)
						marr := ref.Arr{DT: ref.Bool, Shape: shape, El: make([]interface{}, n)}
						for i := 0; i < n; i++ {
							vals[i] = d.Code(i + 1)
							ref.SliceSet(back, i, vals[i])
							mask[i] = mb&(1<<uint(i)) != 0
							marr.El[i] = mask[i]
						}
						t := tensor.New(tensor.WithShape(shape...), tensor.WithBacking(back, mask))
						rk := len(shape)
						wv := ref.Arr{DT: d, Shape: shape, El: vals}.Permute(ref.Reversal(rk))
						wm := marr.Permute(ref.Reversal(rk))
						var res *tensor.Dense
						o := call(func() (e error) {
							if e = t.T(); e != nil {
								return
							}
							switch op {
							case "T+Transpose":
								e = t.Transpose()
								res = t
							case "T+Materialize":
								res = t.Materialize().(*tensor.Dense)
							case "T+Clone+Transpose":
								res = t.Clone().(*tensor.Dense)
								e = res.Transpose()
							}
							return
						})
						r.Op(1)
						r.Outcome("attach-width:" + op + ":" + o.Class)
						if o.Class != "ok" || res == nil || !ref.EqInts(res.Shape(), wv.Shape) {
							return nil
						}
						if !res.IsMasked() {
							if mb == 0 {
								return nil
							}
							return core.F("wrong-mask", "lost", "%s of a masked %s tensor (mask %s) returns an unmasked tensor", op, d.Name, bitsOf(mask))
						}
						i := 0
						var fail *core.Fail
						ref.ForCoords(wv.Shape, func(c []int) {
							if fail != nil {
								return
							}
							v, e1 := res.At(c...)
							m, e2 := res.MaskAt(c...)
							if e1 != nil || e2 != nil {
								fail = core.F("wrong-mask", "unreadable", "%s: At/MaskAt(%v) failed: %v %v", op, c, e1, e2)
							} else if !ref.Same(v, wv.El[i]) || m != wm.El[i].(bool) {
								fail = core.F("wrong-mask", fmt.Sprintf("c%d", i), "%s of a %s tensor of shape %v mask %s: coordinate %v has (value %s, masked %v), expected (%s, %v)", op, d.Name, shape, bitsOf(mask), c, ref.Fmt(v), m, ref.Fmt(wv.El[i]), wm.El[i])
							}
							i++
						})
						return fail
					})
				}
			}
		}
	}
}

// c15Unmasked: a tensor without a mask is the all-valid case of every inspection function.
func c15Unmasked(r *core.Run) {
	for _, shape := range [][]int{{1}, {2}, {4}, {5}, {2, 3}, {2, 2, 2}} {
		if !r.Take() {
			continue
		}
		shape := shape
		n := ref.Prod(shape)
		r.Case(fmt.Sprintf("C15|inspect-unmasked|%s", shapeStr(shape)), true, func() *core.Fail {
			tensor.VerifResetPools()
			back := make([]float64, n)
			for i := range back {
				back[i] = float64(i + 1)
			}
			t := tensor.New(tensor.WithShape(shape...), tensor.WithBacking(back))
			var fails []string
			chk := func(what string, got, want interface{}) {
				if fmt.Sprint(got) != fmt.Sprint(want) {
					fails = append(fails, fmt.Sprintf("%s = %v, expected %v", what, got, want))
				}
			}
			o := call(func() error {
				chk("MaskedCount", t.MaskedCount(), 0)
				chk("NonMaskedCount", t.NonMaskedCount(), n)
				chk("MaskedAny", t.MaskedAny(), false)
				chk("MaskedAll", t.MaskedAll(), false)
				chk("FlatNotMaskedContiguous", fmtSlices(t.FlatNotMaskedContiguous()), fmt.Sprintf("[0:%d]", n))
				chk("FlatMaskedContiguous", fmtSlices(t.FlatMaskedContiguous()), "[]")
				a, b := t.FlatNotMaskedEdges()
				chk("FlatNotMaskedEdges", []int{a, b}, []int{0, n - 1})
				a, b = t.FlatMaskedEdges()
				chk("FlatMaskedEdges", []int{a, b}, []int{-1, -1})
				return nil
			})
			r.Op(8)
			r.Outcome("inspect-unmasked:" + o.Class)
			if o.Class != "ok" {
				return core.F("unexpected-refusal", "x", "inspection of an unmasked tensor of shape %v: %s", shape, o)
			}
			if len(fails) > 0 {
				return core.F("wrong-mask-query", strings.Join(fails, ";"), "unmasked tensor of shape %v (every element valid): %s", shape, strings.Join(fails, "; "))
			}
			return nil
		})
	}
}

func fmtSlices(sl []tensor.Slice) string {
	parts := make([]string, len(sl))
	for i, x := range sl {
		parts[i] = fmt.Sprintf("%d:%d", x.Start(), x.End())
	}
	return "[" + strings.Join(parts, " ") + "]"
}
