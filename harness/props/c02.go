package props

import (
	"fmt"
	"sort"
	"strings"

	"gorgonia.org/tensor"
	"verifharness/atlas"
	"verifharness/core"
	"verifharness/ref"
)

func init() {
	register(&Def{ID: "C02", Engine: "E1+E2", Run: runC02,
		Rule: "single slices: source state x shape x prefix length x complete per-axis argument alphabet (nil, every index -1..n, every (start,end,step) with start in [-1,n+1], end in [start-1,n+2], step in {0,1,2,3,n,n+1}); " +
			"one case = fixed arguments for all but the last sliced axis, the body sweeps the complete alphabet of the last axis (transitions counts every Slice call); nested: BFS over real view states (slice/transpose alphabet) to the stated depth, every transition checked; " +
			"non-trivial = at least one valid and one invalid argument list in the sweep / a transition from a non-root state; states = distinct canonical tensor states (sources and results)",
		Assume: []string{"reference model ref.View.Slice (NumPy semantics as written in the property statement)", "cell identity of the result is read from the result's public shape/strides and the position of its storage window inside the harness-owned root, and cross-checked by an At sweep (At is decided by C01)",
			"empty ranges (start==end) and negative steps are neither required to work nor to fail by the statement and are not judged"}})
}

type rawSl struct{ s, e, st int }

func (r rawSl) Start() int { return r.s }
func (r rawSl) End() int   { return r.e }
func (r rawSl) Step() int  { return r.st }

func toRaw(sls []ref.Sl) []tensor.Slice {
	out := make([]tensor.Slice, len(sls))
	for i, s := range sls {
		switch {
		case s.Nil:
			out[i] = nil
		case s.Single:
			out[i] = rawSl{s.Start, s.Start + 1, 0}
		default:
			out[i] = rawSl{s.Start, s.End, s.Step}
		}
	}
	return out
}

// fullAxis is the complete per-axis argument alphabet of C02.
func fullAxis(n int) []ref.Sl {
	out := []ref.Sl{{Nil: true}}
	for i := -1; i <= n; i++ {
		out = append(out, ref.Sl{Single: true, Start: i})
	}
	var steps []int
	for _, s := range []int{0, 1, 2, 3, n, n + 1} {
		dup := false
		for _, x := range steps {
			if x == s {
				dup = true
			}
		}
		if !dup {
			steps = append(steps, s)
		}
	}
	for start := -1; start <= n+1; start++ {
		for end := start - 1; end <= n+2; end++ {
			for _, st := range steps {
				out = append(out, ref.Sl{Start: start, End: end, Step: st})
			}
		}
	}
	return out
}

func slListStr(sl []ref.Sl) string {
	parts := make([]string, len(sl))
	for i, s := range sl {
		parts[i] = s.String()
	}
	return "[" + strings.Join(parts, ",") + "]"
}

// floorLeadingModel is the DEFECT model of known finding F-C02-leading-step-floor: the number of entries of a
// stepped range on the FIRST axis is floor((end-start)/step) instead of ceil (min 1).
func floorLeadingModel(v ref.View, sl []ref.Sl) (ref.View, []bool, bool) {
	if len(sl) == 0 || sl[0].Nil || sl[0].Single || sl[0].Step <= 1 {
		return ref.View{}, nil, false
	}
	n := v.Shape[0]
	end := sl[0].End
	if end > n {
		end = n
	}
	if (end-sl[0].Start)%sl[0].Step == 0 {
		return ref.View{}, nil, false
	}
	cnt := (end - sl[0].Start) / sl[0].Step
	if cnt <= 0 {
		cnt = 1
	}
	// same as slicing [start : start+cnt*step : step] but with the real window; cells are what matter
	s2 := append([]ref.Sl{}, sl...)
	s2[0] = ref.Sl{Start: sl[0].Start, End: sl[0].Start + (cnt-1)*sl[0].Step + 1, Step: sl[0].Step}
	mv, drop, err := v.Slice(s2)
	if err != nil {
		return ref.View{}, nil, false
	}
	return mv, drop, true
}

type sliceVerdict struct {
	kind   string // "" = ok
	detail string
	class  string // valid/invalid/unspecified
	res    *atlas.Built
}

// checkSlice performs one Slice call on src (not mutated) and compares with the model.
func checkSlice(src *atlas.Built, sl []ref.Sl, api string, snap atlas.Snap) sliceVerdict {
	var args []tensor.Slice
	if api == "raw" {
		args = toRaw(sl)
	} else {
		args = atlas.ToSlices(sl)
	}
	return checkSliceWith(src, sl, "slice", snap, func() (tensor.View, error) {
		if api == "SliceInto" {
			into := tensor.New(tensor.Of(src.DT.D), tensor.WithShape(1))
			return src.T.SliceInto(into, args...)
		}
		return src.T.Slice(args...)
	})
}

func checkSliceWith(src *atlas.Built, sl []ref.Sl, what string, snap atlas.Snap, do func() (tensor.View, error)) sliceVerdict {
	mv, drop, merr := src.View.Slice(sl)
	if merr == ref.ErrUnspecified {
		return sliceVerdict{class: "unspecified"}
	}
	var rv tensor.View
	o := call(func() (e error) { rv, e = do(); return })
	v := sliceVerdict{class: "valid"}
	fail := func(kind, format string, a ...interface{}) sliceVerdict {
		v.kind = kind
		v.detail = fmt.Sprintf(format, a...)
		return v
	}
	if ch := src.Changed(snap); ch != "" {
		src.RestoreRoot(snap)
		return fail("operand-changed", "source changed by Slice%s: %s", slListStr(sl), ch)
	}
	if merr == ref.ErrInvalid {
		v.class = "invalid"
		switch o.Class {
		case "ok":
			return fail("accepted-invalid", "invalid slice %s of shape %v accepted, result shape %v", slListStr(sl), src.View.Shape, rv.Shape())
		case "panic":
			return fail("panic-instead-of-error", "invalid slice %s of shape %v: %v", slListStr(sl), src.View.Shape, o.Panic)
		}
		return v
	}
	if o.Class != "ok" {
		return fail("unexpected-refusal", "valid slice %s of shape %v refused: %s", slListStr(sl), src.View.Shape, o)
	}
	d, isD := rv.(*tensor.Dense)
	if !isD {
		return fail("wrong-type", "result is %T", rv)
	}
	res := &atlas.Built{DT: src.DT, Layout: src.Layout, T: d, Root: src.Root, RootT: src.RootT}
	which, ok := ref.MatchDropped(mv.Shape, drop, d.Shape())
	if !ok {
		// known defect model?
		if fm, fdrop, isF := floorLeadingModel(src.View, sl); isF {
			if w2, ok2 := ref.MatchDropped(fm.Shape, fdrop, d.Shape()); ok2 {
				fv := fm.DropAxes(w2)
				if cells, okc := (&atlas.Built{DT: src.DT, T: d, Root: src.Root}).APCells(); okc && ref.EqInts(cells, fv.Cell) {
					return fail("wrong-shape[KF:leading-step-floor]", "slice %s of shape %v: expected shape %v, got %v (floor instead of ceil on the leading axis)", slListStr(sl), src.View.Shape, mv.Shape, d.Shape())
				}
			}
			if len(fm.Cell) == 1 && len(d.Shape()) == 0 {
				// the two recorded defects composed: the floor leaves ONE element, and a one-element result is a scalar
				// (F-C02-single-element-scalar)
				if cells, okc := (&atlas.Built{DT: src.DT, T: d, Root: src.Root}).APCells(); okc && ref.EqInts(cells, fm.Cell) {
					return fail("wrong-shape[KF:leading-step-floor]", "slice %s of shape %v: expected shape %v, got the scalar () (floor instead of ceil on the leading axis leaves one element)", slListStr(sl), src.View.Shape, mv.Shape)
				}
			}
		}
		// extra axis dropped?
		all := make([]bool, len(mv.Shape))
		for i := range all {
			all[i] = true
		}
		if _, ok3 := ref.MatchDropped(mv.Shape, all, d.Shape()); ok3 {
			if len(d.Shape()) == 0 && len(mv.Cell) == 1 {
				// DEFECT model of known finding F-C02-single-element-scalar: a one-element result is always
				// returned as a scalar, dropping also length-one axes that no slice argument touched
				if cells, okc := (&atlas.Built{DT: src.DT, T: d, Root: src.Root}).APCells(); okc && ref.EqInts(cells, mv.Cell) {
					return fail("extra-axis-dropped[KF:single-element-scalar]", "slice %s of shape %v: model shape %v (droppable %v), got scalar ()", slListStr(sl), src.View.Shape, mv.Shape, drop)
				}
			}
			return fail("extra-axis-dropped", "slice %s of shape %v: model shape %v (droppable %v), got %v", slListStr(sl), src.View.Shape, mv.Shape, drop, d.Shape())
		}
		return fail("wrong-shape", "slice %s of shape %v: expected shape %v (droppable axes %v), got %v", slListStr(sl), src.View.Shape, mv.Shape, drop, d.Shape())
	}
	res.View = mv.DropAxes(which)
	v.res = res
	cells, okc := res.APCells()
	if !okc || !ref.EqInts(cells, res.View.Cell) {
		return fail("wrong-value", "slice %s of shape %v: result shape %v strides %v denotes root cells %v, expected %v", slListStr(sl), src.View.Shape, d.Shape(), d.Strides(), cells, res.View.Cell)
	}
	// cross-check by reading
	got, err := atlas.Logical(d)
	if err != nil {
		return fail("wrong-value", "slice %s of shape %v: result unreadable: %v", slListStr(sl), src.View.Shape, err)
	}
	for i, c := range res.View.Cell {
		if !ref.Same(got[i], ref.SliceGet(src.Root, c)) {
			return fail("wrong-value", "slice %s of shape %v: element %d reads %s, expected root cell %d = %s", slListStr(sl), src.View.Shape, i, ref.Fmt(got[i]), c, ref.Fmt(ref.SliceGet(src.Root, c)))
		}
	}
	return v
}

type c02src struct {
	id   string
	path []atlas.Step
	fort bool
}

func c02Sources(rank int, quick bool) []c02src {
	out := []c02src{{id: "C"}}
	if rank >= 2 {
		out = append(out, c02src{id: "F", fort: true})
		out = append(out, c02src{id: "T", path: []atlas.Step{{Op: "T"}}})
	}
	// a view source: slice [1:n] on every axis is added per shape by the caller (needs dims)
	return out
}

func runC02(r *core.Run) {
	quick := isQuick(r)
	type sweep struct {
		shapes [][]int
		mode   string // "full" or "oneaxis"
	}
	var sweeps []sweep
	if quick {
		sweeps = []sweep{{ref.ShapesUpTo(1, 2, 4), "full"}, {ref.Shapes(3, 2), "full"}, {[][]int{{5}, {2, 5}, {5, 2}, {3, 3, 3}, {1, 3, 2}, {3, 1, 2}}, "oneaxis"}, {ref.Shapes(4, 2), "oneaxis"}}
		r.SetBound("single_slices", "complete alphabet cross product: rank<=2 dims<=4, rank3 dims<=2; one-axis-complete x reduced alphabet elsewhere: (5),(2,5),(5,2),(3,3,3),(1,3,2),(3,1,2), rank4 dims<=2")
	} else {
		sweeps = []sweep{{ref.ShapesUpTo(1, 2, 5), "full"}, {ref.Shapes(3, 3), "full"}, {ref.Shapes(4, 2), "full"}, {[][]int{{3, 3, 3, 3}, {2, 3, 4, 5}, {5, 4, 3, 2}, {1, 4, 1, 3}}, "oneaxis"}}
		r.SetBound("single_slices", "complete alphabet cross product: rank<=2 dims<=5, rank3 dims<=3, rank4 dims<=2; one-axis-complete on (3,3,3,3),(2,3,4,5),(5,4,3,2),(1,4,1,3)")
	}
	dts := []ref.DT{ref.Float64}
	redDts := []ref.DT{ref.Bool, ref.Uint8, ref.Int16, ref.Float32, ref.Complex128, ref.String}
	r.SetBound("dtypes", "complete alphabet on float64; reduced alphabet + nested BFS on bool,uint8,int16,float32,complex128,string (element widths 1,2,4,16 and string headers) and float64")

	runGroup := func(d ref.DT, shape []int, src c02src, api string, pre []ref.Sl, last []ref.Sl, k int) {
		id := fmt.Sprintf("C02|%s|%s|%s|%s|k=%d|%s+*", d.Name, shapeStr(shape), src.id, api, k, slListStr(pre))
		if r.ReplayCase != "" && id != r.ReplayCase {
			return
		}
		tensor.VerifResetPools()
		b, cls := atlas.Replay(d, shape, src.fort, src.path)
		if b == nil {
			r.Dim("skipped_sources", cls)
			return
		}
		d.FillCodes(b.Root, 0)
		r.State(atlas.StateKey(b.T, atlas.RootPtr(b.Root)))
		r.Case(id, true, func() *core.Fail {
			snap := b.Snapshot()
			var fails []string
			kinds := map[string]bool{}
			nKF, nOther := 0, 0
			sl := append(append([]ref.Sl{}, pre...), ref.Sl{})
			sweepArgs := last
			if k == 0 {
				sweepArgs = []ref.Sl{{Nil: true}} // placeholder: a single call with zero slices
			}
			for _, a := range sweepArgs {
				sl[len(sl)-1] = a
				if k == 0 {
					sl = sl[:0]
				}
				v := checkSlice(b, sl, api, snap)
				r.Op(1)
				r.Outcome(v.class + ":" + v.kind)
				if v.res != nil {
					r.State(atlas.StateKey(v.res.T, atlas.RootPtr(b.Root)))
				}
				if v.kind != "" {
					kinds[v.kind] = true
					if strings.Contains(v.kind, "[KF:") {
						nKF++
					} else {
						nOther++
					}
					if len(fails) < 12 {
						fails = append(fails, a.String()+"→"+v.kind+": "+v.detail)
					}
				}
			}
			if len(fails) == 0 {
				return nil
			}
			var ks []string
			for kd := range kinds {
				if nOther > 0 && strings.Contains(kd, "[KF:") {
					continue // a group with unlisted failures is reported as such
				}
				ks = append(ks, kd)
			}
			sortStrings(ks)
			return core.F(strings.Join(ks, "+"), fmt.Sprintf("kf%d-other%d", nKF, nOther), "%s", strings.Join(fails, " ; "))
		})
	}

	// the cheaper, wider parts first: an internal deadline (thorough tier) then only cuts into the largest cross products
	c02Reduced(r, redDts)
	c02SliceIntoReused(r)
	c02Narrow(r)
	c02Nested(r, append([]ref.DT{ref.Float64}, redDts...))
	for _, sw := range sweeps {
		for _, shape := range sw.shapes {
			rank := len(shape)
			srcs := c02Sources(rank, quick)
			// view source: interior/offset slice of a bigger root is expressed as a path on a padded root
			for _, d := range dts {
				for _, src := range srcs {
					if sw.mode == "oneaxis" && src.id == "F" && quick {
						continue
					}
					// model shape of the source (after its path)
					mshape := shape
					if len(src.path) > 0 {
						mshape = ref.RootC(shape).Permute(ref.Reversal(rank)).Shape
					}
					alph := make([][]ref.Sl, rank)
					red := make([][]ref.Sl, rank)
					for i, n := range mshape {
						alph[i] = fullAxis(n)
						red[i] = atlas.AxisAlphabet(n)
					}
					for k := 0; k <= rank; k++ { // prefix length
						if k == 0 {
							if !r.Take() {
								continue
							}
							runGroup(d, shape, src, "Slice", nil, nil, 0)
							continue
						}
						var axesFull [][]int // which axes take the complete alphabet
						if sw.mode == "full" {
							axesFull = [][]int{nil} // all
						} else {
							for ax := 0; ax < k; ax++ {
								axesFull = append(axesFull, []int{ax})
							}
						}
						for _, af := range axesFull {
							// alphabets for axes 0..k-1
							use := make([][]ref.Sl, k)
							for ax := 0; ax < k; ax++ {
								if af == nil || af[0] == ax {
									use[ax] = alph[ax]
								} else {
									use[ax] = red[ax]
								}
							}
							// enumerate prefixes over axes 0..k-2, sweep axis k-1
							pres := [][]ref.Sl{{}}
							for ax := 0; ax < k-1; ax++ {
								var next [][]ref.Sl
								for _, p := range pres {
									for _, a := range use[ax] {
										next = append(next, append(append([]ref.Sl{}, p...), a))
									}
								}
								pres = next
							}
							for _, p := range pres {
								if !r.Take() {
									continue
								}
								if r.Expired() {
									return
								}
								api := "Slice"
								if af != nil && af[0] == 0 && k == 1 {
									api = "raw"
								}
								runGroup(d, shape, src, api, p, use[k-1], k)
							}
						}
					}
					// rank+1 slices: must be refused
					if r.Take() {
						id := fmt.Sprintf("C02|%s|%s|%s|too-many-slices", d.Name, shapeStr(shape), src.id)
						b, _ := atlas.Replay(d, shape, src.fort, src.path)
						if b != nil {
							d.FillCodes(b.Root, 0)
							r.Case(id, true, func() *core.Fail {
								snap := b.Snapshot()
								sl := make([]ref.Sl, rank+1)
								for i := range sl {
									sl[i] = ref.Sl{Nil: true}
								}
								v := checkSlice(b, sl, "Slice", snap)
								r.Op(1)
								if v.kind != "" {
									return core.F(v.kind, "x", "%s", v.detail)
								}
								return nil
							})
						}
					}
				}
			}
		}
	}
}

// c02Reduced: reduced alphabet, every width representative, Slice / SliceInto / Narrow, sources C,F,T,S,SS.
func c02Reduced(r *core.Run, dts []ref.DT) {
	shapes := ref.DedupShapes(append(ref.ShapesUpTo(1, 3, 3), [][]int{{2, 2, 2, 2}, {2, 1, 2, 3}, {5}, {4, 5}}...))
	if !isQuick(r) {
		shapes = ref.DedupShapes(append(ref.ShapesUpTo(1, 3, 4), append(ref.Shapes(4, 2), [][]int{{3, 3, 3, 3}, {2, 1, 2, 3}, {5}, {4, 5}}...)...))
	}
	for _, d := range dts {
		for _, shape := range shapes {
			for _, lay := range []string{"C", "F", "T", "S", "SS", "ST", "FT"} {
				for _, api := range []string{"Slice", "SliceInto", "Narrow"} {
					if !r.Take() {
						continue
					}
					if r.Expired() {
						return
					}
					d, shape, lay, api := d, shape, lay, api
					id := fmt.Sprintf("C02|%s|%s|%s|%s|reduced", d.Name, shapeStr(shape), lay, api)
					if r.ReplayCase != "" && id != r.ReplayCase {
						continue
					}
					tensor.VerifResetPools()
					n := ref.Prod(shape)
					vals := make([]interface{}, n)
					for i := range vals {
						vals[i] = d.Code(i)
					}
					b, err := atlas.Build(d, shape, vals, lay)
					if err != nil {
						r.Dim("skipped_sources", "atlas:"+lay)
						continue
					}
					d.FillCodes(b.Root, 0)
					r.State(atlas.StateKey(b.T, atlas.RootPtr(b.Root)))
					r.Case(id, true, func() *core.Fail {
						snap := b.Snapshot()
						var fails []string
						kinds := map[string]bool{}
						nKF, nOther := 0, 0
						note := func(desc string, v sliceVerdict) {
							r.Op(1)
							r.Outcome(v.class + ":" + v.kind)
							if v.res != nil {
								r.State(atlas.StateKey(v.res.T, atlas.RootPtr(b.Root)))
							}
							if v.kind == "" {
								return
							}
							kinds[v.kind] = true
							if strings.Contains(v.kind, "[KF:") {
								nKF++
							} else {
								nOther++
							}
							if len(fails) < 12 {
								fails = append(fails, desc+"→"+v.kind+": "+v.detail)
							}
						}
						if api == "Narrow" {
							for dim := 0; dim < len(shape); dim++ {
								for start := 0; start <= shape[dim]; start++ {
									for length := 1; length <= shape[dim]-start+1; length++ {
										sl := make([]ref.Sl, dim+1)
										for i := range sl {
											sl[i] = ref.Sl{Nil: true}
										}
										sl[dim] = ref.Sl{Start: start, End: start + length, Step: 1}
										note(fmt.Sprintf("Narrow(%d,%d,%d)", dim, start, length), checkNarrow(b, dim, start, length, sl, snap))
									}
								}
							}
						} else {
							for _, sl := range atlas.SliceLists(shape, atlas.AxisAlphabet) {
								note(slListStr(sl), checkSlice(b, sl, api, snap))
							}
						}
						if len(fails) == 0 {
							return nil
						}
						var ks []string
						for kd := range kinds {
							if nOther > 0 && strings.Contains(kd, "[KF:") {
								continue
							}
							ks = append(ks, kd)
						}
						sortStrings(ks)
						return core.F(strings.Join(ks, "+"), fmt.Sprintf("kf%d-other%d", nKF, nOther), "%s", strings.Join(fails, " ; "))
					})
				}
			}
		}
	}
}

func checkNarrow(src *atlas.Built, dim, start, length int, sl []ref.Sl, snap atlas.Snap) sliceVerdict {
	// Narrow(dim,start,length) must equal Slice with [start:start+length:1] on axis dim
	return checkSliceWith(src, sl, fmt.Sprintf("Narrow(%d,%d,%d)", dim, start, length), snap, func() (tensor.View, error) {
		return src.T.Narrow(dim, start, length)
	})
}

// c02Nested: explicit-state BFS over real view states; every transition (slice list from the reduced alphabet,
// T(), T(rotation)) is executed on a freshly replayed state and checked against the model.
func c02Nested(r *core.Run, dts []ref.DT) {
	depth := 3
	shapes := [][]int{{4}, {5}, {3, 3}, {2, 4}, {4, 3}, {2, 2, 2}, {2, 3, 2}}
	maxStates := 4000
	if !isQuick(r) {
		shapes = append(shapes, []int{4, 4}, []int{3, 3, 3}, []int{2, 2, 2, 2}, []int{5, 5})
		maxStates = 40000
	}
	r.SetBound("nested", fmt.Sprintf("BFS depth %d over view states of shapes %v, alphabet = reduced slice lists + T() + T(rotation); at most %d expanded states per (dtype,shape,order) (cap reported if hit)", depth, shapes, maxStates))
	for _, d := range dts {
		for _, shape := range shapes {
			for _, fort := range []bool{false, true} {
				if fort && (len(shape) < 2 || d.Name != "float64") {
					continue
				}
				if !r.Take() {
					continue
				}
				c02BFS(r, d, shape, fort, depth, maxStates)
			}
		}
	}
}

func c02BFS(r *core.Run, d ref.DT, shape []int, fort bool, depth, maxStates int) {
	type qe struct{ path []atlas.Step }
	seen := map[string]bool{}
	frontier := []qe{{nil}}
	expanded := 0
	ord := "C"
	if fort {
		ord = "F"
	}
	for lvl := 0; lvl < depth; lvl++ {
		var next []qe
		for _, e := range frontier {
			if r.Expired() {
				return
			}
			if expanded >= maxStates {
				r.CapHit = true
				r.Note(fmt.Sprintf("C02 nested BFS: state cap %d hit for %s %v at level %d", maxStates, d.Name, shape, lvl))
				return
			}
			expanded++
			tensor.VerifResetPools()
			src, cls := atlas.Replay(d, shape, fort, e.path)
			if src == nil {
				r.Dim("nested_unreplayable", cls)
				continue
			}
			d.FillCodes(src.Root, 0)
			var steps []atlas.Step
			for _, sl := range atlas.SliceLists(src.View.Shape, atlas.AxisAlphabet) {
				steps = append(steps, atlas.Step{Op: "S", Sl: sl})
			}
			rk := len(src.View.Shape)
			if rk >= 2 {
				steps = append(steps, atlas.Step{Op: "T"})
				if rk >= 3 {
					rot := make([]int, rk)
					for i := range rot {
						rot[i] = (i + 1) % rk
					}
					steps = append(steps, atlas.Step{Op: "T", Perm: rot})
				}
			}
			id := fmt.Sprintf("C02|%s|%s|%s|nested|%s", d.Name, shapeStr(shape), ord, atlas.PathString(e.path))
			var succ []atlas.Step
			r.CaseAlways(id, len(e.path) > 0, func() *core.Fail {
				succ = succ[:0]
				snap := src.Snapshot()
				var fails []string
				kinds := map[string]bool{}
				nKF, nOther := 0, 0
				for _, st := range steps {
					if st.Op == "S" {
						v := checkSlice(src, st.Sl, "Slice", snap)
						r.Op(1)
						r.Outcome(v.class + ":" + v.kind)
						if v.kind != "" {
							kinds[v.kind] = true
							if strings.Contains(v.kind, "[KF:") {
								nKF++
							} else {
								nOther++
							}
							if len(fails) < 10 {
								fails = append(fails, st.String()+"→"+v.kind+": "+v.detail)
							}
							continue
						}
						if v.res != nil {
							k := atlas.StateKey(v.res.T, atlas.RootPtr(src.Root)) + fmt.Sprint(v.res.View.Cell)
							r.State(k)
							if !seen[k] {
								seen[k] = true
								succ = append(succ, st)
							}
						}
					} else {
						// T mutates in place: use a fresh replay
						b2, _ := atlas.Replay(d, shape, fort, e.path)
						if b2 == nil {
							continue
						}
						d.FillCodes(b2.Root, 0)
						nb, res := b2.Apply(st)
						r.Op(1)
						r.Outcome("T:" + res.Class)
						if res.Class != "ok" {
							continue // transposition itself is C03's subject
						}
						cells, okc := nb.APCells()
						if !okc || !ref.EqInts(cells, nb.View.Cell) {
							continue // C03's subject
						}
						k := atlas.StateKey(nb.T, atlas.RootPtr(nb.Root)) + fmt.Sprint(nb.View.Cell)
						r.State(k)
						if !seen[k] {
							seen[k] = true
							succ = append(succ, st)
						}
					}
				}
				if len(fails) == 0 {
					return nil
				}
				var ks []string
				for kd := range kinds {
					if nOther > 0 && strings.Contains(kd, "[KF:") {
						continue
					}
					ks = append(ks, kd)
				}
				sortStrings(ks)
				return core.F(strings.Join(ks, "+"), fmt.Sprintf("kf%d-other%d", nKF, nOther), "%s", strings.Join(fails, " ; "))
			})
			for _, st := range succ {
				next = append(next, qe{append(append([]atlas.Step{}, e.path...), st)})
			}
		}
		frontier = next
	}
}

// c02SliceIntoReused: SliceInto "overrides ALL the metadata in view" - also when the view handed in has a history: a pending
// lazy transpose, or the mask window of a masked tensor. Differential oracle: the result must be indistinguishable from what
// Slice returns for the same arguments (shape, elements, maskedness), also after UT (nothing is pending on a fresh slice).
func c02SliceIntoReused(r *core.Run) {
	d := ref.Float64
	for _, shape := range [][]int{{4}, {3, 2}, {2, 3}, {2, 2, 2}} {
		for _, lay := range []string{"C", "T", "S"} {
			for _, variant := range []string{"pending-transpose", "masked-view"} {
				if !r.Take() {
					continue
				}
				shape, lay, variant := shape, lay, variant
				id := fmt.Sprintf("C02|SliceIntoReused|%s|%s|%s", shapeStr(shape), lay, variant)
				if r.ReplayCase != "" && id != r.ReplayCase {
					continue
				}
				r.Case(id, true, func() *core.Fail {
					n := ref.Prod(shape)
					vals := make([]interface{}, n)
					for i := range vals {
						vals[i] = d.Code(i + 1)
					}
					var fails []string
					for _, sl := range atlas.SliceLists(shape, atlas.AxisAlphabet) {
						tensor.VerifResetPools()
						b := buildVerified(d, shape, vals, lay)
						if b == nil {
							return nil
						}
						args := atlas.ToSlices(sl)
						want, werr := b.T.Slice(args...)
						var into *tensor.Dense
						switch variant {
						case "pending-transpose":
							into = tensor.New(tensor.WithShape(2, 3), tensor.WithBacking([]float64{9, 9, 9, 9, 9, 9}))
							into.T()
						case "masked-view":
							mt := tensor.New(tensor.WithShape(2, 3), tensor.WithBacking([]float64{9, 9, 9, 9, 9, 9}, []bool{true, false, true, false, true, true}))
							v, err := mt.Slice(tensor.S(1, 2))
							if err != nil {
								return nil
							}
							into = v.(*tensor.Dense)
						}
						var got tensor.View
						var gerr error
						o := call(func() error { got, gerr = b.T.SliceInto(into, args...); return nil })
						r.Op(2)
						if o.Class != "ok" {
							fails = append(fails, fmt.Sprintf("%s: SliceInto panics: %s", slListStr(sl), o))
							continue
						}
						if (werr == nil) != (gerr == nil) {
							fails = append(fails, fmt.Sprintf("%s: Slice err=%v, SliceInto err=%v", slListStr(sl), werr, gerr))
							continue
						}
						if werr != nil {
							continue
						}
						wd, gd := want.(*tensor.Dense), got.(*tensor.Dense)
						cmp := func(stage string) {
							if !ref.EqInts(wd.Shape(), gd.Shape()) {
								fails = append(fails, fmt.Sprintf("%s %s: shape %v, Slice gives %v", slListStr(sl), stage, []int(gd.Shape()), []int(wd.Shape())))
								return
							}
							if wd.IsMasked() != gd.IsMasked() {
								fails = append(fails, fmt.Sprintf("%s %s: IsMasked()=%v, Slice gives %v (stale mask of the recycled view)", slListStr(sl), stage, gd.IsMasked(), wd.IsMasked()))
								return
							}
							a, e1 := atlas.Logical(wd)
							c, e2 := atlas.Logical(gd)
							if e1 != nil || e2 != nil || len(a) != len(c) {
								fails = append(fails, fmt.Sprintf("%s %s: unreadable (%v / %v)", slListStr(sl), stage, e1, e2))
								return
							}
							for i := range a {
								if !ref.Same(a[i], c[i]) {
									fails = append(fails, fmt.Sprintf("%s %s: element %d is %s, Slice gives %s", slListStr(sl), stage, i, ref.Fmt(c[i]), ref.Fmt(a[i])))
									return
								}
							}
						}
						cmp("result")
						if o := call(func() error { wd.UT(); gd.UT(); return nil }); o.Class == "ok" {
							cmp("after UT")
						} else {
							fails = append(fails, fmt.Sprintf("%s: UT on the result panics: %s", slListStr(sl), o))
						}
					}
					r.Outcome("SliceIntoReused:" + variant)
					if len(fails) == 0 {
						return nil
					}
					sort.Strings(fails)
					k := fails[0]
					if len(fails) > 4 {
						fails = fails[:4]
					}
					return core.F("wrong-value", fmt.Sprintf("%x", core.H64(k)), "SliceInto into a recycled view (%s) differs from Slice: %s", variant, strings.Join(fails, " ; "))
				})
			}
		}
	}
}

// c02Narrow: the package-level shorthand Narrow(t, dim, start, length) is the slice [start : start+length] of axis dim
// (every other axis whole), for every axis (negative axes count from the end), start and length - also those that
// reach past the axis (clamped) or start past it (refused) - compared with the model.
func c02Narrow(r *core.Run) {
	d := ref.Float64
	for _, shape := range [][]int{{4}, {3, 2}, {2, 3}, {2, 3, 2}, {1, 3, 1}} {
		for _, lay := range []string{"C", "T", "S", "F"} {
			if !r.Take() {
				continue
			}
			shape, lay := shape, lay
			id := fmt.Sprintf("C02|Narrow|%s|%s", shapeStr(shape), lay)
			if r.ReplayCase != "" && id != r.ReplayCase {
				continue
			}
			r.Case(id, true, func() *core.Fail {
				n := ref.Prod(shape)
				vals := make([]interface{}, n)
				for i := range vals {
					vals[i] = d.Code(i + 1)
				}
				var fails []string
				for dim := -len(shape); dim < len(shape); dim++ {
					ax := dim
					if ax < 0 {
						ax += len(shape)
					}
					for start := 0; start <= shape[ax]; start++ {
						for length := 1; length <= shape[ax]+1; length++ {
							tensor.VerifResetPools()
							b := buildVerified(d, shape, vals, lay)
							if b == nil {
								return nil
							}
							sl := make([]ref.Sl, ax+1)
							for i := range sl {
								sl[i] = ref.Sl{Nil: true}
							}
							sl[ax] = ref.Sl{Start: start, End: start + length, Step: 1}
							mv, _, merr := b.View.Slice(sl)
							var got tensor.View
							var gerr error
							o := call(func() error { got, gerr = tensor.Narrow(b.T, dim, start, length); return nil })
							r.Op(1)
							what := fmt.Sprintf("Narrow(dim %d, start %d, length %d) of %v layout %s", dim, start, length, shape, lay)
							if merr == ref.ErrUnspecified {
								continue
							}
							if merr != nil {
								if o.Class == "ok" && gerr == nil {
									fails = append(fails, what+": accepted, the model refuses: "+merr.Error())
								}
								continue
							}
							if o.Class != "ok" || gerr != nil {
								fails = append(fails, fmt.Sprintf("%s: refused (%v %s)", what, gerr, o))
								continue
							}
							gd, ok := got.(*tensor.Dense)
							if !ok {
								continue
							}
							els, err := atlas.Logical(gd)
							if err != nil {
								fails = append(fails, what+": unreadable: "+err.Error())
								continue
							}
							if len(els) != len(mv.Cell) {
								fails = append(fails, fmt.Sprintf("%s: %d elements (shape %v), expected %d (shape %v)", what, len(els), gd.Shape(), len(mv.Cell), mv.Shape))
								continue
							}
							for i, c := range mv.Cell {
								if !ref.Same(els[i], ref.SliceGet(b.Root, c)) {
									fails = append(fails, fmt.Sprintf("%s: element %d is %s, expected %s", what, i, ref.Fmt(els[i]), ref.Fmt(ref.SliceGet(b.Root, c))))
									break
								}
							}
						}
					}
				}
				if len(fails) > 0 {
					k := strings.Join(fails, " ; ")
					if len(fails) > 6 {
						k = strings.Join(fails[:6], " ; ") + fmt.Sprintf(" ; ... %d more", len(fails)-6)
					}
					return core.F("wrong-value", fmt.Sprintf("%x", core.H64(strings.Join(fails, ";"))), "%s", k)
				}
				return nil
			})
		}
	}
}
