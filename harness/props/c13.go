package props

import (
	"fmt"
	"strings"

	"gorgonia.org/tensor"
	"verifharness/atlas"
	"verifharness/core"
	"verifharness/ref"
)

func init() {
	register(&Def{ID: "C13", Engine: "E1+E2", Run: runC13,
		Rule: "agreement (differential) checks between the shape-only calculators and execution over the argument spaces of C02 (complete per-axis slice alphabet), C03 (all permutations), C10 (repeat counts, concat operand shapes), valid AND invalid: Shape.S vs Slice, Shape.Repeat vs Repeat, Shape.Concat vs Concat, AP.T vs T - same shape, and an error exactly when execution fails; " +
			"Reshape: every tensor state (atlas layouts) x every ordered factorisation of its size (+ unequal sizes): flat element sequence in the tensor's own data order preserved, elements unchanged, refusal allowed only as stated; metadata invariant (size = product of shape; shape/strides address distinct in-window cells) on every tensor produced by a sweep of all operation families. one case = one group of the sweep; non-trivial = >= 1 valid and >= 1 invalid argument in the group",
		Assume: []string{"execution is the reference for the calculators (which of the two is right is C02/C03/C10's question)"}})
}

func factorisations(n, maxRank int) [][]int {
	var out [][]int
	var rec func(rem int, cur []int)
	rec = func(rem int, cur []int) {
		if len(cur) > 0 && rem == 1 {
			out = append(out, ref.CopyInts(cur))
		}
		if len(cur) >= maxRank {
			return
		}
		for f := 1; f <= rem; f++ {
			if rem%f == 0 {
				if f == 1 && len(cur) > 0 && cur[len(cur)-1] == 1 {
					continue
				}
				rec(rem/f, append(cur, f))
			}
		}
	}
	rec(n, nil)
	return out
}

// metaInvariant checks the metadata invariant of C13 on a tensor.
func metaInvariant(t *tensor.Dense) string { return atlas.MetaInvariant(t) }

func orderInvariant(t *tensor.Dense) string { return atlas.OrderInvariant(t) }

func runC13(r *core.Run) {
	quick := isQuick(r)
	d := ref.Float64
	// ---- Shape.S vs Slice
	sshapes := ref.DedupShapes(append(ref.ShapesUpTo(1, 2, 4), append(ref.Shapes(3, 2), []int{3, 3, 3}, []int{5}, []int{2, 5}, []int{2, 2, 2, 2})...))
	if !quick {
		sshapes = ref.DedupShapes(append(ref.ShapesUpTo(1, 2, 5), append(ref.Shapes(3, 3), ref.Shapes(4, 2)...)...))
	}
	r.SetBound("slice_agreement", fmt.Sprintf("%d shapes; complete alphabet cross product for rank<=2 (rank 3 dims<=2 quick, <=3 thorough), one-axis-complete otherwise", len(sshapes)))
	for _, shape := range sshapes {
		rank := len(shape)
		full := rank <= 2 || (rank == 3 && (ref.Prod(shape) <= 8 || !quick))
		alph := make([][]ref.Sl, rank)
		for i, n := range shape {
			alph[i] = fullAxis(n)
		}
		red := make([][]ref.Sl, rank)
		for i, n := range shape {
			red[i] = atlas.AxisAlphabet(n)
		}
		for k := 1; k <= rank; k++ {
			var axesFull [][]int
			if full {
				axesFull = [][]int{nil}
			} else {
				for ax := 0; ax < k; ax++ {
					axesFull = append(axesFull, []int{ax})
				}
			}
			for _, af := range axesFull {
				use := make([][]ref.Sl, k)
				for ax := 0; ax < k; ax++ {
					if af == nil || af[0] == ax {
						use[ax] = alph[ax]
					} else {
						use[ax] = red[ax]
					}
				}
				pres := [][]ref.Sl{{}}
				for ax := 0; ax < k-1; ax++ {
					var next [][]ref.Sl
					for _, p := range pres {
						for _, a := range use[ax] {
							next = append(next, append(append([]ref.Sl{}, p...), a))
						}
					}
					pres = next
				}
				for _, p := range pres {
					if !r.Take() {
						continue
					}
					if r.Expired() {
						return
					}
					p, shape, k := p, shape, k
					last := use[k-1]
					id := fmt.Sprintf("C13|ShapeS|%s|k=%d|%s+*", shapeStr(shape), k, slListStr(p))
					if r.ReplayCase != "" && id != r.ReplayCase {
						continue
					}
					r.Case(id, true, func() *core.Fail {
						tensor.VerifResetPools()
						t := tensor.New(tensor.Of(d.D), tensor.WithShape(shape...))
						var fails []string
						kinds := map[string]bool{}
						sl := append(append([]ref.Sl{}, p...), ref.Sl{})
						mview := ref.RootC(shape)
						for _, a := range last {
							sl[len(sl)-1] = a
							// empty ranges (start == end) are outside the argument space C02 judges: nothing is demanded of their
							// result except what holds for EVERY tensor (size = product of the shape, in-bounds distinct positions)
							// and that calculator and operation accept or refuse together
							_, _, merr := mview.Slice(sl)
							unspec := merr == ref.ErrUnspecified
							args := atlas.ToSlices(sl)
							var ss tensor.Shape
							var v tensor.View
							o1 := call(func() (e error) { ss, e = tensor.Shape(ref.CopyInts(shape)).S(args...); return })
							o2 := call(func() (e error) { v, e = t.Slice(args...); return })
							r.Op(2)
							r.Outcome("S:" + o1.Class + "/" + o2.Class)
							kind, det := "", ""
							switch {
							case (o1.Class == "ok") != (o2.Class == "ok"):
								kind = "error-disagreement"
								det = fmt.Sprintf("Shape.S: %s, Slice: %s", o1.Class, o2.Class)
							case unspec:
								if o2.Class == "ok" {
									if dv, ok := v.(*tensor.Dense); ok {
										if msg := metaInvariant(dv); msg != "" {
											kind = "invariant"
											det = "Slice with an empty range returns a tensor violating the metadata invariant: " + msg
										}
									}
								}
							case o1.Class == "ok" && !ref.EqInts(ss, v.Shape()):
								kind = "wrong-shape"
								det = fmt.Sprintf("Shape.S predicts %v, Slice returns %v", []int(ss), []int(v.Shape()))
								kind += c13SliceTag(shape, sl, ss, v.Shape())
							}
							if kind != "" && unspec {
								// DEFECT precondition of F-C13-empty-range-slice: a range with start == end (after clamping) in the list
								kind += "[KF:empty-range]"
							}
							if kind != "" {
								kinds[kind] = true
								if len(fails) < 8 {
									fails = append(fails, slListStr(sl)+": "+det)
								}
							}
						}
						return c13Join(kinds, fails)
					})
				}
			}
		}
	}
	c13Transpose(r)
	c13RepeatConcat(r)
	c13Reshape(r)
	c13ReshapeVG(r)
	c13ReshapeTT(r)
	c13Invariant(r)
}

func c13Join(kinds map[string]bool, fails []string) *core.Fail {
	if len(kinds) == 0 {
		return nil
	}
	var ks []string
	other := false
	for k := range kinds {
		if !strings.Contains(k, "[KF:") {
			other = true
		}
	}
	for k := range kinds {
		if other && strings.Contains(k, "[KF:") {
			continue
		}
		ks = append(ks, k)
	}
	sortStrings(ks)
	return core.F(strings.Join(ks, "+"), fmt.Sprintf("n%d", len(fails)), "%s", strings.Join(fails, " ; "))
}

// c13SliceTag: defect models of the two recorded disagreements between Shape.S and AP.S.
func c13SliceTag(shape []int, sl []ref.Sl, predicted, got []int) string {
	// (1) single-element results: AP.S returns a scalar (), Shape.S keeps untouched length-one axes
	if len(got) == 0 && ref.Prod(predicted) == 1 {
		return "[KF:single-element-scalar]"
	}
	// (2) stepped ranges: Shape.S floors on every axis, AP.S ceils on every axis but the first.
	// The model of the disagreement: recompute with floor everywhere and compare with the prediction, and with
	// ceil-except-first and compare with execution.
	calc := func(ceilFrom int) []int {
		var out []int
		for i, n := range shape {
			s := ref.Sl{Nil: true}
			if i < len(sl) {
				s = sl[i]
			}
			if s.Nil {
				out = append(out, n)
				continue
			}
			if s.Single {
				continue // dropped
			}
			end := s.End
			if end > n {
				end = n
			}
			cnt := end - s.Start
			if s.Step > 0 {
				cnt = (end - s.Start) / s.Step
				if i >= ceilFrom && (end-s.Start)%s.Step > 0 {
					cnt++
				}
				if cnt <= 0 {
					cnt = 1
				}
			}
			if cnt == 1 {
				continue
			}
			out = append(out, cnt)
		}
		return out
	}
	if ref.EqInts(calc(len(shape)+1), predicted) && ref.EqInts(calc(1), got) {
		return "[KF:shapeS-floors-steps]"
	}
	return ""
}

func c13Transpose(r *core.Run) {
	d := ref.Float64
	shapes := ref.DedupShapes(append(ref.ShapesUpTo(0, 3, 3), [][]int{{2, 2, 2, 2}, {2, 1, 3, 2}, {1, 4}, {4, 1}}...))
	r.SetBound("transpose_agreement", "every permutation (and default, wrong length, repeated, out-of-range axes) on rank 0-4 shapes")
	for _, shape := range shapes {
		if !r.Take() {
			continue
		}
		rank := len(shape)
		perms := append([][]int{nil}, ref.Perms(rank)...)
		if rank >= 1 {
			rep := make([]int, rank)
			perms = append(perms, rep, ref.Reversal(rank+1))
			oor := ref.Reversal(rank)
			oor[0] = rank
			perms = append(perms, oor)
			if rank >= 2 {
				perms = append(perms, ref.Reversal(rank-1))
			}
		}
		shape := shape
		id := fmt.Sprintf("C13|APT|%s", shapeStr(shape))
		if r.ReplayCase != "" && id != r.ReplayCase {
			continue
		}
		r.Case(id, rank >= 2, func() *core.Fail {
			var fails []string
			kinds := map[string]bool{}
			for _, p := range perms {
				tensor.VerifResetPools()
				t := tensor.New(tensor.Of(d.D), tensor.WithShape(shape...))
				ap := t.Info()
				var pshape []int
				o1 := call(func() (e error) {
					nap, _, e := ap.T(ref.CopyInts(p)...)
					if e != nil {
						if _, ok := e.(tensor.NoOpError); ok {
							pshape = ref.CopyInts(shape)
							return nil
						}
						return e
					}
					pshape, _, _ = tensor.VerifAPOf(&nap)
					return nil
				})
				o2 := call(func() error { return t.T(ref.CopyInts(p)...) })
				r.Op(2)
				r.Outcome("T:" + o1.Class + "/" + o2.Class)
				if (o1.Class == "ok") != (o2.Class == "ok") {
					kinds["error-disagreement"] = true
					fails = append(fails, fmt.Sprintf("axes %v: AP.T %s, T %s", p, o1.Class, o2.Class))
				} else if o1.Class == "ok" && !ref.EqInts(pshape, t.Shape()) {
					kinds["wrong-shape"] = true
					fails = append(fails, fmt.Sprintf("axes %v: AP.T predicts %v, T gives %v", p, pshape, []int(t.Shape())))
				}
			}
			return c13Join(kinds, fails)
		})
	}
}

func c13RepeatConcat(r *core.Run) {
	d := ref.Float64
	shapes := [][]int{{}, {3}, {1, 3}, {3, 1}, {2, 3}, {2, 1, 3}, {2, 2, 2}, {1, 1}}
	r.SetBound("repeat_concat_agreement", fmt.Sprintf("shapes %v; repeat: every axis -1..rank, counts 0..3 uniform and per-element vectors over {0,1,2} (+wrong lengths); concat: 1-3 operands with equal / differing dims on every axis -1..rank", shapes))
	for _, shape := range shapes {
		if !r.Take() {
			continue
		}
		rank := len(shape)
		shape := shape
		id := fmt.Sprintf("C13|ShapeRepeat|%s", shapeStr(shape))
		if r.ReplayCase == "" || id == r.ReplayCase {
			r.Case(id, true, func() *core.Fail {
				var fails []string
				kinds := map[string]bool{}
				for axis := -1; axis <= rank; axis++ {
					n := ref.Prod(shape)
					if axis >= 0 && axis < rank {
						n = shape[axis]
					}
					repsList := [][]int{{0}, {1}, {2}, {3}, make([]int, n+1)}
					if n >= 2 && n <= 3 {
						for m := 0; m < 27; m++ {
							v := make([]int, n)
							x := m
							for i := range v {
								v[i] = x % 3
								x /= 3
							}
							repsList = append(repsList, v)
						}
					}
					ax := axis
					if axis < 0 {
						ax = tensor.AllAxes
					}
					for _, reps := range repsList {
						tensor.VerifResetPools()
						t := tensor.New(tensor.Of(d.D), tensor.WithShape(shape...))
						var ps tensor.Shape
						var res tensor.Tensor
						o1 := call(func() (e error) {
							ps, _, _, e = tensor.Shape(ref.CopyInts(shape)).Repeat(ax, ref.CopyInts(reps)...)
							return
						})
						o2 := call(func() (e error) { res, e = t.Repeat(ax, ref.CopyInts(reps)...); return })
						r.Op(2)
						r.Outcome("Repeat:" + o1.Class + "/" + o2.Class)
						if (o1.Class == "ok") != (o2.Class == "ok") {
							kinds["error-disagreement"] = true
							fails = append(fails, fmt.Sprintf("axis %d reps %v: Shape.Repeat %s, Repeat %s", axis, reps, o1.Class, o2.Class))
						} else if o1.Class == "ok" && !ref.EqInts(ps, res.Shape()) {
							kinds["wrong-shape"] = true
							fails = append(fails, fmt.Sprintf("axis %d reps %v: Shape.Repeat predicts %v, Repeat gives %v", axis, reps, []int(ps), []int(res.Shape())))
						}
					}
				}
				if len(fails) > 8 {
					fails = fails[:8]
				}
				return c13Join(kinds, fails)
			})
		}
		if rank == 0 {
			continue
		}
		id = fmt.Sprintf("C13|ShapeConcat|%s", shapeStr(shape))
		if r.ReplayCase != "" && id != r.ReplayCase {
			continue
		}
		r.Case(id, true, func() *core.Fail {
			var fails []string
			kinds := map[string]bool{}
			for axis := -1; axis <= rank; axis++ {
				for nops := 1; nops <= 3; nops++ {
					for variant := 0; variant < 3; variant++ {
						shapes := make([][]int, nops)
						for i := range shapes {
							shapes[i] = ref.CopyInts(shape)
							switch variant {
							case 1: // differ along the axis (valid)
								if axis >= 0 && axis < rank {
									shapes[i][axis] += i
								}
							case 2: // differ along another axis (invalid)
								if i > 0 {
									shapes[i][(axis+1+rank)%rank]++
								}
							}
						}
						tensor.VerifResetPools()
						var ts []*tensor.Dense
						var ss []tensor.Shape
						for _, s := range shapes {
							ts = append(ts, tensor.New(tensor.Of(d.D), tensor.WithShape(s...)))
							ss = append(ss, tensor.Shape(ref.CopyInts(s)))
						}
						var ps tensor.Shape
						var res *tensor.Dense
						o1 := call(func() (e error) { ps, e = ss[0].Concat(axis, ss[1:]...); return })
						o2 := call(func() (e error) { res, e = ts[0].Concat(axis, ts[1:]...); return })
						r.Op(2)
						r.Outcome("Concat:" + o1.Class + "/" + o2.Class)
						if (o1.Class == "ok") != (o2.Class == "ok") {
							k := "error-disagreement"
							if axis == -1 && o1.Class == "ok" && o2.Class == "panic" {
								k += "[KF:concat-allaxes]"
							}
							kinds[k] = true
							fails = append(fails, fmt.Sprintf("axis %d shapes %v: Shape.Concat %s, Concat %s", axis, shapes, o1.Class, o2.Class))
						} else if o1.Class == "ok" && !ref.EqInts(ps, res.Shape()) {
							kinds["wrong-shape"] = true
							fails = append(fails, fmt.Sprintf("axis %d shapes %v: Shape.Concat predicts %v, Concat gives %v", axis, shapes, []int(ps), []int(res.Shape())))
						}
					}
				}
			}
			if len(fails) > 8 {
				fails = fails[:8]
			}
			return c13Join(kinds, fails)
		})
	}
}

func c13Reshape(r *core.Run) {
	d := ref.Float64
	shapes := ref.DedupShapes(append(ref.ShapesUpTo(0, 3, 3), [][]int{{2, 2, 2, 2}, {2, 1, 3, 2}, {6}, {4, 3}, {2, 6}, {12}}...))
	if !isQuick(r) {
		shapes = ref.DedupShapes(append(ref.ShapesUpTo(0, 3, 4), append(ref.Shapes(4, 2), []int{2, 1, 3, 2}, []int{6}, []int{12}, []int{24}, []int{5, 5})...))
	}
	r.SetBound("reshape", fmt.Sprintf("%d shapes x layouts C,F,T,S,SS,M,ST,TS,FS,FT x every ordered factorisation of the size into <= 4 factors, plus sizes n-1 and n+1", len(shapes)))
	for _, shape := range shapes {
		n := ref.Prod(shape)
		for _, lay := range []string{"C", "F", "T", "S", "SS", "M", "ST", "TS", "FS", "FT"} {
			if !r.Take() {
				continue
			}
			if r.Expired() {
				return
			}
			shape, lay := shape, lay
			id := fmt.Sprintf("C13|Reshape|%s|%s", shapeStr(shape), lay)
			if r.ReplayCase != "" && id != r.ReplayCase {
				continue
			}
			vals := make([]interface{}, n)
			for i := range vals {
				vals[i] = d.Code(i + 1)
			}
			if buildVerified(d, shape, vals, lay) == nil {
				r.Dim("skipped", "reshape:"+lay)
				continue
			}
			targets := factorisations(n, 4)
			targets = append(targets, []int{n + 1}, []int{})
			if n > 1 {
				targets = append(targets, []int{n - 1})
			}
			r.Case(id, n >= 2, func() *core.Fail {
				var fails []string
				kinds := map[string]bool{}
				// the tensor's own shape slice as the argument (t.Reshape(t.Shape()...)): equal size, must be a no-op or refused
				if len(shape) >= 1 {
					tensor.VerifResetPools()
					b := buildVerified(d, shape, vals, lay)
					snap := b.Snapshot()
					o := call(func() error { return b.T.Reshape(b.T.Shape()...) })
					r.Op(1)
					r.Outcome("Reshape(own):" + o.Class)
					if msg := metaInvariant(b.T); msg != "" {
						kinds["invariant-violated"] = true
						fails = append(fails, fmt.Sprintf("Reshape(t.Shape()...) of %v (%s) -> %s: %s", shape, lay, o, msg))
					} else if got, err := atlas.Logical(b.T); o.Class == "ok" && (err != nil || !ref.EqInts(b.T.Shape(), shape) || len(got) != n) {
						kinds["wrong-shape"] = true
						fails = append(fails, fmt.Sprintf("Reshape(t.Shape()...) of %v (%s): shape now %v (%v)", shape, lay, []int(b.T.Shape()), err))
					} else if o.Class != "ok" {
						if ch := b.Changed(snap); ch != "" {
							kinds["operand-changed"] = true
							fails = append(fails, fmt.Sprintf("refused Reshape(t.Shape()...) of %v (%s) changed the tensor: %s", shape, lay, ch))
						}
					}
				}
				for _, tg := range targets {
					tensor.VerifResetPools()
					b := buildVerified(d, shape, vals, lay)
					// the flat sequence in the tensor's own data order
					var seq []interface{}
					if b.T.DataOrder().IsColMajor() {
						v := ref.RootF(shape)
						seq = make([]interface{}, n)
						for i, c := range v.Cell {
							seq[c] = vals[i]
						}
					} else {
						seq = vals
					}
					snap := b.Snapshot()
					o := call(func() error { return b.T.Reshape(ref.CopyInts(tg)...) })
					r.Op(1)
					r.Outcome("Reshape:" + o.Class)
					okSize := ref.Prod(tg) == n
					if !okSize {
						if o.Class == "ok" {
							kinds["accepted-invalid"] = true
							fails = append(fails, fmt.Sprintf("reshape %v -> %v (different size) accepted", shape, tg))
						}
						if ch := b.Changed(snap); ch != "" && o.Class != "ok" {
							kinds["operand-changed"] = true
							fails = append(fails, fmt.Sprintf("refused reshape %v -> %v changed the tensor: %s", shape, tg, ch))
						}
						continue
					}
					if o.Class != "ok" {
						// may refuse a non-contiguous view outright; anything else must succeed
						if b.T.IsView() && b.T.RequiresIterator() {
							continue
						}
						kinds["unexpected-refusal"] = true
						fails = append(fails, fmt.Sprintf("reshape %v (%s) -> %v refused: %s", shape, lay, tg, o))
						continue
					}
					if msg := metaInvariant(b.T); msg != "" {
						kinds["invariant-violated"] = true
						fails = append(fails, fmt.Sprintf("after reshape %v (%s) -> %v: %s", shape, lay, tg, msg))
						continue
					}
					if !ref.EqInts(b.T.Shape(), tg) && !(len(tg) == 0 && b.T.IsScalar()) {
						kinds["wrong-shape"] = true
						fails = append(fails, fmt.Sprintf("reshape %v -> %v gives shape %v", shape, tg, []int(b.T.Shape())))
						continue
					}
					got, err := atlas.Logical(b.T)
					if err != nil {
						kinds["wrong-value"] = true
						fails = append(fails, fmt.Sprintf("after reshape %v (%s) -> %v unreadable: %v", shape, lay, tg, err))
						continue
					}
					// expected logical content: seq laid out in the tensor's own data order over the new shape
					want := make([]interface{}, n)
					if b.T.DataOrder().IsColMajor() {
						v := ref.RootF(tg)
						for i, c := range v.Cell {
							want[i] = seq[c]
						}
					} else {
						copy(want, seq)
					}
					for i := range want {
						if !ref.Same(got[i], want[i]) {
							k := "wrong-value"
							if lay == "FT" {
								k += "[KF:colmajor-data-movement]" // Reshape materialises the pending transpose of a column-major tensor
							}
							kinds[k] = true
							fails = append(fails, fmt.Sprintf("reshape %v (%s) -> %v: element %d is %s expected %s (flat order not preserved)", shape, lay, tg, i, ref.Fmt(got[i]), ref.Fmt(want[i])))
							break
						}
					}
				}
				if len(fails) > 8 {
					fails = fails[:8]
				}
				return c13Join(kinds, fails)
			})
		}
	}
}

// c13ReshapeVG: Reshape "after slicing/transposing" from NON-INITIAL states - every row-major view-graph state reached in
// two or three steps (slices and lazy transposes in any order) is flattened and reshaped to its reversed shape. Either the
// call refuses (allowed for views that need an iterator) or the flat logical sequence is preserved.
func c13ReshapeVG(r *core.Run) {
	d := ref.Float64
	shapes := [][]int{{2, 3}, {3, 2}, {2, 2, 2}, {2, 3, 2}}
	depth := 3
	if !isQuick(r) {
		shapes = append(shapes, []int{2, 3, 4}, []int{3, 3}, []int{2, 2, 2, 2})
	}
	r.SetBound("reshape_view_graph", fmt.Sprintf("shapes %v x every view-graph state of depth 2..%d x {flatten, reversed shape}", shapes, depth))
	for _, shape := range shapes {
		dep := depth
		if ref.Prod(shape) > 12 {
			dep = 2
		}
		paths := atlas.ViewStates(shape, false, dep, true)
		for _, path := range paths {
			if len(path) < 2 {
				continue
			}
			if !r.Take() {
				continue
			}
			if r.Expired() {
				return
			}
			path := path
			id := fmt.Sprintf("C13|ReshapeVG|%s|%s", shapeStr(shape), atlas.PathString(path))
			if r.ReplayCase != "" && id != r.ReplayCase {
				continue
			}
			mk := func() (*atlas.Built, []interface{}) {
				tensor.VerifResetPools()
				b, _ := atlas.Replay(d, shape, false, path)
				if b == nil {
					return nil, nil
				}
				d.FillCodes(b.Root, 1)
				if cells, ok := b.APCells(); !ok || !ref.EqInts(cells, b.View.Cell) {
					return nil, nil
				}
				seq := make([]interface{}, len(b.View.Cell))
				for i, c := range b.View.Cell {
					seq[i] = ref.SliceGet(b.Root, c)
				}
				return b, seq
			}
			b0, seq0 := mk()
			if b0 == nil || len(seq0) < 2 {
				r.Dim("skipped", "reshape-vg")
				continue
			}
			r.State(atlas.StateKey(b0.T, atlas.RootPtr(b0.Root)))
			r.Case(id, true, func() *core.Fail {
				var fails []string
				kinds := map[string]bool{}
				n := len(seq0)
				rs := make([]int, len(b0.View.Shape))
				for i := range rs {
					rs[i] = b0.View.Shape[len(rs)-1-i]
				}
				for _, tg := range [][]int{{n}, rs} {
					b, seq := mk()
					snapRoot := b.Snapshot()
					o := call(func() error { return b.T.Reshape(ref.CopyInts(tg)...) })
					r.Op(1)
					r.Outcome("ReshapeVG:" + o.Class)
					if o.Class != "ok" {
						_ = snapRoot
						continue // a refusal is always allowed here (views), what must not happen is a changed sequence
					}
					got, err := atlas.Logical(b.T)
					if err != nil || len(got) != n {
						kinds["wrong-value"] = true
						fails = append(fails, fmt.Sprintf("after reshape -> %v unreadable: %v", tg, err))
						continue
					}
					for i := range got {
						if !ref.Same(got[i], seq[i]) {
							kinds["wrong-value"] = true
							fails = append(fails, fmt.Sprintf("reshape of view state %s (shape %v) -> %v: flat element %d is %s, expected %s: the elements changed", atlas.PathString(path), b0.View.Shape, tg, i, ref.Fmt(got[i]), ref.Fmt(seq[i])))
							break
						}
					}
				}
				return c13Join(kinds, fails)
			})
		}
	}
}

// c13ReshapeTT: two lazy transposes by ARBITRARY permutations (the second materialises the first and stays pending itself),
// then a range on the leading axis only, then Reshape - judged on values (the data has moved, so the cell model of the
// view graph does not apply): refusal, or the flat logical sequence of the view.
func c13ReshapeTT(r *core.Run) {
	d := ref.Float64
	shapes := [][]int{{2, 3, 2}, {2, 3, 4}}
	if !isQuick(r) {
		shapes = append(shapes, []int{3, 2, 2}, []int{2, 2, 3}, []int{3, 3, 3})
	}
	for _, shape := range shapes {
		n := ref.Prod(shape)
		for _, p := range ref.Perms(3) {
			for _, q := range ref.Perms(3) {
				if isIdentity(p) || isIdentity(q) || !r.Take() {
					continue
				}
				p, q := p, q
				id := fmt.Sprintf("C13|ReshapeTT|%s|T%v.T%v", shapeStr(shape), p, q)
				if r.ReplayCase != "" && id != r.ReplayCase {
					continue
				}
				r.Case(id, true, func() *core.Fail {
					var fails []string
					kinds := map[string]bool{}
					vals := make([]interface{}, n)
					for i := range vals {
						vals[i] = d.Code(i + 1)
					}
					model := ref.Arr{DT: d, Shape: ref.CopyInts(shape), El: vals}.Permute(p).Permute(q)
					rows := model.Shape[0]
					rowLen := n / rows
					for _, rg := range [][2]int{{1, rows}, {0, rows - 1}} {
						if rg[1]-rg[0] < 1 || rows < 2 {
							continue
						}
						tensor.VerifResetPools()
						a := mkContig(d, shape, vals)
						var v tensor.View
						o := call(func() (e error) {
							if e = a.T(ref.CopyInts(p)...); e != nil {
								return
							}
							if e = a.T(ref.CopyInts(q)...); e != nil {
								return
							}
							v, e = a.Slice(tensor.S(rg[0], rg[1]))
							return
						})
						r.Op(3)
						if o.Class != "ok" {
							continue
						}
						dv := v.(*tensor.Dense)
						want := model.El[rg[0]*rowLen : rg[1]*rowLen]
						if got, err := atlas.Logical(dv); err != nil || len(got) != len(want) {
							if err != nil && strings.Contains(err.Error(), "invariant") {
								kinds["invariant-violated"] = true
								fails = append(fails, fmt.Sprintf("T%v.T%v.S[%d:%d] of %v: %v", p, q, rg[0], rg[1], shape, err))
							}
							continue // what the view reads is otherwise C02/C03's subject
						} else {
							okv := true
							for i := range got {
								okv = okv && ref.Same(got[i], want[i])
							}
							if !okv {
								continue
							}
						}
						o = call(func() error { return dv.Reshape(len(want)) })
						r.Op(1)
						r.Outcome("ReshapeTT:" + o.Class)
						if o.Class != "ok" {
							continue
						}
						got, err := atlas.Logical(dv)
						if err != nil || len(got) != len(want) {
							kinds["wrong-value"] = true
							fails = append(fails, fmt.Sprintf("T%v.T%v.S[%d:%d] of %v then Reshape(%d): unreadable (%v)", p, q, rg[0], rg[1], shape, len(want), err))
							continue
						}
						for i := range got {
							if !ref.Same(got[i], want[i]) {
								kinds["wrong-value"] = true
								fails = append(fails, fmt.Sprintf("T%v.T%v.S[%d:%d] of %v then Reshape(%d): flat element %d is %s, expected %s - Reshape changed the elements (got %s want %s)", p, q, rg[0], rg[1], shape, len(want), i, ref.Fmt(got[i]), ref.Fmt(want[i]), ref.FmtEls(got), ref.FmtEls(want)))
								break
							}
						}
					}
					return c13Join(kinds, fails)
				})
			}
		}
	}
}

// c13Invariant evaluates the metadata invariant on every tensor produced by a sweep of the operation families.
func c13Invariant(r *core.Run) {
	shapes := ref.DedupShapes(append(ref.ShapesUpTo(0, 3, 3), [][]int{{2, 2, 2, 2}, {2, 1, 2, 3}, {5}, {1, 4}, {4, 1}}...))
	r.SetBound("invariant_sweep", fmt.Sprintf("%d shapes x 4 element types x all atlas layouts; tensors produced by construction, slicing (reduced alphabet), T/UT/Transpose/SafeT, Clone/Materialize, arithmetic/comparison/unary results, reductions, concat/stack/repeat", len(shapes)))
	for _, d := range []ref.DT{ref.Float64, ref.Uint8, ref.Complex128, ref.String} {
		for _, shape := range shapes {
			for _, lay := range atlas.LAll {
				if !r.Take() {
					continue
				}
				if r.Expired() {
					return
				}
				d, shape, lay := d, shape, lay
				id := fmt.Sprintf("C13|Invariant|%s|%s|%s", d.Name, shapeStr(shape), lay)
				if r.ReplayCase != "" && id != r.ReplayCase {
					continue
				}
				n := ref.Prod(shape)
				vals := make([]interface{}, n)
				for i := range vals {
					vals[i] = d.Code(i + 1)
				}
				r.Case(id, n >= 2, func() *core.Fail {
					var fails []string
					kinds := map[string]bool{}
					chk := func(what string, t tensor.Tensor) {
						dt, ok := t.(*tensor.Dense)
						if !ok || dt == nil {
							return
						}
						r.Op(1)
						r.State(d.Name + "|" + atlas.StateKey(dt, 0))
						msg := metaInvariant(dt)
						if msg == "" {
							msg = orderInvariant(dt)
						}
						if msg != "" {
							kinds["invariant-violated"] = true
							if len(fails) < 8 {
								fails = append(fails, what+": "+msg)
							}
						}
					}
					fresh := func() *atlas.Built {
						tensor.VerifResetPools()
						b, err := atlas.Build(d, shape, vals, lay)
						if err != nil {
							return nil
						}
						return b
					}
					b := fresh()
					if b == nil {
						return nil
					}
					chk("constructed", b.T)
					try := func(what string, f func(b *atlas.Built) (tensor.Tensor, error)) {
						b := fresh()
						var t tensor.Tensor
						o := call(func() (e error) { t, e = f(b); return })
						if o.Class == "ok" && t != nil {
							chk(what, t)
						}
						if o.Class != "panic" {
							chk(what+" (receiver)", b.T)
						}
					}
					for _, sl := range atlas.SliceLists(shape, atlas.AxisAlphabet) {
						sl := sl
						try("Slice"+slListStr(sl), func(b *atlas.Built) (tensor.Tensor, error) { return b.T.Slice(atlas.ToSlices(sl)...) })
					}
					for _, p := range append([][]int{nil}, ref.Perms(len(shape))...) {
						p := p
						try(fmt.Sprintf("T%v", p), func(b *atlas.Built) (tensor.Tensor, error) { return b.T, b.T.T(ref.CopyInts(p)...) })
						try(fmt.Sprintf("T%v+Transpose", p), func(b *atlas.Built) (tensor.Tensor, error) {
							if e := b.T.T(ref.CopyInts(p)...); e != nil {
								return nil, e
							}
							return b.T, b.T.Transpose()
						})
						try(fmt.Sprintf("SafeT%v", p), func(b *atlas.Built) (tensor.Tensor, error) { return b.T.SafeT(ref.CopyInts(p)...) })
						try(fmt.Sprintf("T%v+UT", p), func(b *atlas.Built) (tensor.Tensor, error) {
							if e := b.T.T(ref.CopyInts(p)...); e != nil {
								return nil, e
							}
							b.T.UT()
							return b.T, nil
						})
					}
					try("Clone", func(b *atlas.Built) (tensor.Tensor, error) { return b.T.Clone().(tensor.Tensor), nil })
					try("Materialize", func(b *atlas.Built) (tensor.Tensor, error) { return b.T.Materialize(), nil })
					if d.IsNumber() {
						try("Add", func(b *atlas.Built) (tensor.Tensor, error) { return tensor.Add(b.T, b.T) })
						try("AddScalar", func(b *atlas.Built) (tensor.Tensor, error) { return tensor.Add(b.T, d.Code(1)) })
						try("Neg", func(b *atlas.Built) (tensor.Tensor, error) { return tensor.Neg(b.T) })
						try("ElEq", func(b *atlas.Built) (tensor.Tensor, error) { return tensor.ElEq(b.T, b.T) })
						for ax := 0; ax < len(shape); ax++ {
							ax := ax
							try(fmt.Sprintf("Sum(%d)", ax), func(b *atlas.Built) (tensor.Tensor, error) { return tensor.Sum(b.T, ax) })
							if d.IsOrdNum() {
								try(fmt.Sprintf("Argmax(%d)", ax), func(b *atlas.Built) (tensor.Tensor, error) { return tensor.Argmax(b.T, ax) })
							}
						}
					}
					for ax := 0; ax <= len(shape); ax++ {
						ax := ax
						if ax < len(shape) {
							try(fmt.Sprintf("Concat(%d)", ax), func(b *atlas.Built) (tensor.Tensor, error) { return b.T.Concat(ax, b.T) })
							try(fmt.Sprintf("Repeat(%d)", ax), func(b *atlas.Built) (tensor.Tensor, error) { return b.T.Repeat(ax, 2) })
						}
						try(fmt.Sprintf("Stack(%d)", ax), func(b *atlas.Built) (tensor.Tensor, error) { return b.T.Stack(ax, b.T) })
					}
					return c13Join(kinds, fails)
				})
			}
		}
	}
}
