package props

import (
	"fmt"
	"reflect"
	"strings"

	"gorgonia.org/tensor"
	"verifharness/atlas"
	"verifharness/core"
	"verifharness/ref"
)

func init() {
	register(&Def{ID: "C15", Engine: "E1+E2", Run: runC15,
		Rule: "predicates: 9 masking predicates x every element type they accept x {soft, hard} x prior mask {none, every pattern over the first 4 elements} x a value ramp with ties, and NaN elements and NaN bounds; sequences: BFS over (mask, softness) with <= 3 predicate calls and Harden/Soften in between; " +
			"inspection: EVERY mask over <= N elements x shapes (n),(1,n),(n,1),(a,b),(a,b,c) x {MaskedCount, NonMaskedCount, MaskedAny, MaskedAll} without axis and along every axis, run and edge finders, Filled/FilledInplace; masked operands: Add/Sub/Mul/Lt/Neg with every mask over <=4 elements on either operand; " +
			"mask attachment through T, Transpose, Slice, Clone, Materialize for every mask, and from non-initial states: every mask x every slice/transpose view state (view graph depth 2), read by At/MaskAt, then materialised and cloned. non-trivial = >= 2 elements",
		Assume: []string{"masks are indexed by storage position; the logical mask of a view is the mask bit of the storage cell each coordinate denotes", "MaskedValues is called with explicit rtol and atol (delta = atol + rtol*|x|)"}})
}

type maskPred struct {
	name string
	ord  bool // needs an ordered type
	f    func(a, x, y interface{}) bool
}

func cmpB(op string, a, b interface{}) bool { return ref.Compare(op, a, b).V.(bool) }

var maskPreds = []maskPred{
	{"MaskedEqual", false, func(a, x, y interface{}) bool { return cmpB("ElEq", a, x) }},
	{"MaskedNotEqual", false, func(a, x, y interface{}) bool { return cmpB("ElNe", a, x) }},
	{"MaskedGreater", true, func(a, x, y interface{}) bool { return cmpB("Gt", a, x) }},
	{"MaskedGreaterEqual", true, func(a, x, y interface{}) bool { return cmpB("Gte", a, x) }},
	{"MaskedLess", true, func(a, x, y interface{}) bool { return cmpB("Lt", a, x) }},
	{"MaskedLessEqual", true, func(a, x, y interface{}) bool { return cmpB("Lte", a, x) }},
	{"MaskedInside", true, func(a, x, y interface{}) bool { return cmpB("Gte", a, x) && cmpB("Lte", a, y) }},
	{"MaskedOutside", true, func(a, x, y interface{}) bool { return cmpB("Lt", a, x) || cmpB("Gt", a, y) }},
}

func callPred(t *tensor.Dense, name string, x, y interface{}) Outcome {
	return call(func() error {
		switch name {
		case "MaskedEqual":
			return t.MaskedEqual(x)
		case "MaskedNotEqual":
			return t.MaskedNotEqual(x)
		case "MaskedGreater":
			return t.MaskedGreater(x)
		case "MaskedGreaterEqual":
			return t.MaskedGreaterEqual(x)
		case "MaskedLess":
			return t.MaskedLess(x)
		case "MaskedLessEqual":
			return t.MaskedLessEqual(x)
		case "MaskedInside":
			return t.MaskedInside(x, y)
		case "MaskedOutside":
			return t.MaskedOutside(x, y)
		case "ResetMask":
			if !t.IsMasked() {
				return nil // ResetMask of an unmasked tensor would attach a mask: not what is examined here
			}
			return t.ResetMask()
		}
		panic(name)
	})
}

func bitsOf(m []bool) string {
	b := make([]byte, len(m))
	for i, x := range m {
		b[i] = '0'
		if x {
			b[i] = '1'
		}
	}
	return string(b)
}

func rampVals(d ref.DT, n int) []interface{} {
	v := make([]interface{}, n)
	for i := range v {
		v[i] = d.Code([]int{3, 1, 4, 1, 5, 2, 6, 5, 3, 5}[i%10])
	}
	return v
}

func runC15(r *core.Run) {
	quick := isQuick(r)
	// ---------- A: predicates
	n := 7
	for _, p := range maskPreds {
		for _, d := range ref.ALL18 {
			if d.Class == ref.CBool || d.Class == ref.CPtr || d.Class == ref.CUintptr || d.Class == ref.CComplex {
				continue
			}
			if !r.Take() {
				continue
			}
			for _, soft := range []bool{false, true} {
				for prior := -1; prior < 16; prior++ {
					p, d, soft, prior := p, d, soft, prior
					id := fmt.Sprintf("C15|pred|%s|%s|soft=%v|prior=%d", p.name, d.Name, soft, prior)
					if r.ReplayCase != "" && id != r.ReplayCase {
						continue
					}
					r.Case(id, true, func() *core.Fail {
						tensor.VerifResetPools()
						vals := rampVals(d, n)
						back := d.MakeSlice(n)
						for i, v := range vals {
							ref.SliceSet(back, i, v)
						}
						var t *tensor.Dense
						pm := make([]bool, n)
						if prior >= 0 {
							for i := 0; i < 4; i++ {
								pm[i] = prior&(1<<uint(i)) != 0
							}
							t = tensor.New(tensor.WithShape(n), tensor.WithBacking(back, append([]bool{}, pm...)))
						} else {
							t = tensor.New(tensor.WithShape(n), tensor.WithBacking(back))
						}
						if soft {
							t.SoftenMask()
						} else {
							t.HardenMask()
						}
						x, y := d.Code(3), d.Code(5)
						if d.Class == ref.CString {
							x, y = vals[0], vals[4]
						}
						o := callPred(t, p.name, x, y)
						r.Op(1)
						r.Outcome(p.name + ":" + o.Class)
						if o.Class != "ok" {
							if d.Class == ref.CString && p.ord {
								return nil
							}
							return core.F("unexpected-refusal", "x", "%s on %s refused: %s", p.name, d.Name, o)
						}
						for i := range vals {
							if !ref.Same(ref.SliceGet(back, i), vals[i]) {
								return core.F("operand-changed", "data", "%s changed the data", p.name)
							}
						}
						got := t.Mask()
						if len(got) != n {
							return core.F("wrong-mask", "len", "mask length %d expected %d", len(got), n)
						}
						for i := range vals {
							want := p.f(vals[i], x, y)
							if !soft {
								want = want || pm[i]
							}
							if got[i] != want {
								return core.F("wrong-mask", fmt.Sprintf("b%d", i), "%s(%s,%s) soft=%v prior=%s on %s: mask %s, bit %d should be %v", p.name, ref.Fmt(x), ref.Fmt(y), soft, bitsOf(pm), ref.FmtEls(vals), bitsOf(got), i, want)
							}
						}
						return nil
					})
				}
			}
		}
	}
	// MaskedValues (floats)
	for _, d := range []ref.DT{ref.Float32, ref.Float64} {
		if !r.Take() {
			continue
		}
		for _, soft := range []bool{false, true} {
			d, soft := d, soft
			id := fmt.Sprintf("C15|pred|MaskedValues|%s|soft=%v", d.Name, soft)
			r.Case(id, true, func() *core.Fail {
				tensor.VerifResetPools()
				var back, x, rtol, atol interface{}
				var fv []float64
				if d.Name == "float32" {
					back = []float32{1, 1.05, 1.5, 0.9, 3, 1.2}
					x, rtol, atol = float32(1), float32(0.1), float32(0.01)
				} else {
					back = []float64{1, 1.05, 1.5, 0.9, 3, 1.2}
					x, rtol, atol = float64(1), float64(0.1), float64(0.01)
				}
				fv = []float64{1, 1.05, 1.5, 0.9, 3, 1.2}
				pm := []bool{false, false, true, false, false, false}
				t := tensor.New(tensor.WithShape(6), tensor.WithBacking(back, append([]bool{}, pm...)))
				if soft {
					t.SoftenMask()
				}
				o := call(func() error { return t.MaskedValues(x, rtol, atol) })
				r.Op(1)
				if o.Class != "ok" {
					return core.F("unexpected-refusal", "x", "MaskedValues refused: %s", o)
				}
				got := t.Mask()
				for i, a := range fv {
					diff := a - 1
					if diff < 0 {
						diff = -diff
					}
					want := diff <= 0.01+0.1*1+1e-7
					if diff > 0.105 && diff < 0.115 {
						continue
					}
					if !soft {
						want = want || pm[i]
					}
					if got[i] != want {
						return core.F("wrong-mask", fmt.Sprintf("b%d", i), "MaskedValues(1, rtol .1, atol .01) soft=%v: mask %s, bit %d (value %v) should be %v", soft, bitsOf(got), i, a, want)
					}
				}
				return nil
			})
		}
	}
	c15Sequences(r)
	c15Inspection(r, quick)
	c15MaskedOps(r)
	c15Attachment(r)
	c15ViewGraph(r)
	c15AttachWidths(r)
	c15Unmasked(r)
	c15PredViews(r)
	c15Values(r)
	c15SharedTranspose(r)
	c15NaN(r)
}

// c15Sequences: BFS over (mask, softness) states with predicate calls and Harden/Soften.
func c15Sequences(r *core.Run) {
	d := ref.Int
	vals := rampVals(d, 5)
	type ev struct {
		name string
		x, y int
	}
	alphabet := []ev{{"MaskedEqual", 1, 0}, {"MaskedGreater", 3, 0}, {"MaskedLess", 3, 0}, {"MaskedInside", 2, 4}, {"MaskedOutside", 2, 4}, {"Harden", 0, 0}, {"Soften", 0, 0}, {"ResetMask", 0, 0}}
	type st struct {
		path []ev
		mask string
		soft bool
	}
	r.SetBound("sequences", "every sequence of 3 events (no merging of histories) over {MaskedEqual(1), MaskedGreater(3), MaskedLess(3), MaskedInside(2,4), MaskedOutside(2,4), HardenMask, SoftenMask, ResetMask} from an unmasked tensor, states = (mask bits, softness)")
	if !r.Take() {
		return
	}
	seen := map[string]bool{}
	frontier := []st{{nil, "00000", false}}
	for depth := 0; depth < 3; depth++ {
		var next []st
		for _, s := range frontier {
			s := s
			var ps []string
			for _, e := range s.path {
				ps = append(ps, fmt.Sprintf("%s(%d,%d)", e.name, e.x, e.y))
			}
			id := "C15|seq|" + strings.Join(ps, ".")
			r.CaseAlways(id, true, func() *core.Fail {
				var fails []string
				for _, e := range alphabet {
					tensor.VerifResetPools()
					back := d.MakeSlice(5)
					for i, v := range vals {
						ref.SliceSet(back, i, v)
					}
					t := tensor.New(tensor.WithShape(5), tensor.WithBacking(back))
					apply := func(e ev) {
						switch e.name {
						case "Harden":
							t.HardenMask()
						case "Soften":
							t.SoftenMask()
						case "ResetMask":
							t.ResetMask()
						default:
							callPred(t, e.name, d.Code(e.x), d.Code(e.y))
						}
					}
					for _, pe := range s.path {
						apply(pe)
					}
					apply(e)
					r.Op(1)
					// model
					mask := []byte(s.mask)
					soft := s.soft
					switch e.name {
					case "Harden":
						soft = false
					case "Soften":
						soft = true
					case "ResetMask":
						mask = []byte("00000")
					default:
						var pf func(a, x, y interface{}) bool
						for _, p := range maskPreds {
							if p.name == e.name {
								pf = p.f
							}
						}
						for i := range vals {
							w := pf(vals[i], d.Code(e.x), d.Code(e.y))
							if !soft && mask[i] == '1' {
								w = true
							}
							mask[i] = '0'
							if w {
								mask[i] = '1'
							}
						}
					}
					got := "00000"
					if t.IsMasked() {
						got = bitsOf(t.Mask())
					}
					if got != string(mask) {
						fails = append(fails, fmt.Sprintf("after %s(%d,%d) from mask %s soft=%v: mask %s expected %s", e.name, e.x, e.y, s.mask, s.soft, got, string(mask)))
						continue
					}
					k := fmt.Sprint(string(mask), soft)
					r.State("seq|" + k)
					// no merging of histories that reach the same (mask, softness): whether the mask existed when the tensor
					// was softened, for example, is real state the model does not show (8^3 sequences are cheap)
					seen[k] = true
					next = append(next, st{append(append([]ev{}, s.path...), e), string(mask), soft})
				}
				if len(fails) > 0 {
					return core.F("wrong-mask", fmt.Sprintf("n%d", len(fails)), "%s", strings.Join(fails, " ; "))
				}
				return nil
			})
		}
		frontier = next
	}
}

func c15Inspection(r *core.Run, quick bool) {
	maxN := 8
	if !quick {
		maxN = 10
	}
	var shapes [][]int
	for n := 1; n <= maxN; n++ {
		shapes = append(shapes, []int{n})
		if n >= 2 {
			shapes = append(shapes, []int{1, n}, []int{n, 1})
		}
		for a := 2; a*2 <= n; a++ {
			if n%a == 0 {
				shapes = append(shapes, []int{a, n / a})
			}
		}
	}
	shapes = append(shapes, []int{2, 2, 2})
	if maxN >= 10 {
		shapes = append(shapes, []int{2, 2, 2}, []int{1, 2, 3})
	}
	shapes = ref.DedupShapes(shapes)
	r.SetBound("inspection", fmt.Sprintf("every mask over <= %d elements for %d shapes", maxN, len(shapes)))
	_ = ref.Float64
	for _, shape := range shapes {
		n := ref.Prod(shape)
		for mb := 0; mb < 1<<uint(n); mb++ {
			if !r.Take() {
				continue
			}
			if r.Expired() {
				return
			}
			shape, mb := shape, mb
			id := fmt.Sprintf("C15|inspect|%s|mask=%0*b", shapeStr(shape), n, mb)
			if r.ReplayCase != "" && id != r.ReplayCase {
				continue
			}
			r.Case(id, n >= 2, func() *core.Fail {
				tensor.VerifResetPools()
				mask := make([]bool, n)
				back := make([]float64, n)
				for i := range mask {
					mask[i] = mb&(1<<uint(i)) != 0
					back[i] = float64(i + 1)
				}
				mk := func() *tensor.Dense {
					return tensor.New(tensor.WithShape(shape...), tensor.WithBacking(append([]float64{}, back...), append([]bool{}, mask...)))
				}
				t := mk()
				var fails []string
				add := func(format string, a ...interface{}) {
					if len(fails) < 6 {
						fails = append(fails, fmt.Sprintf(format, a...))
					}
				}
				cnt := 0
				for _, m := range mask {
					if m {
						cnt++
					}
				}
				// whole-array queries
				chkWhole := func(name string, got interface{}, want interface{}) {
					r.Op(1)
					if !reflect.DeepEqual(got, want) {
						add("%s() = %v, expected %v", name, got, want)
					}
				}
				chkWhole("MaskedCount", t.MaskedCount(), cnt)
				chkWhole("NonMaskedCount", t.NonMaskedCount(), n-cnt)
				chkWhole("MaskedAny", t.MaskedAny(), cnt > 0)
				chkWhole("MaskedAll", t.MaskedAll(), cnt == n)
				// per axis
				if len(shape) >= 2 && !tensor.Shape(shape).IsVector() {
					marr := ref.Arr{DT: ref.Bool, Shape: shape, El: make([]interface{}, n)}
					for i, m := range mask {
						marr.El[i] = m
					}
					for ax := 0; ax < len(shape); ax++ {
						for _, q := range []string{"MaskedCount", "NonMaskedCount", "MaskedAny", "MaskedAll"} {
							var res interface{}
							o := call(func() error {
								switch q {
								case "MaskedCount":
									res = t.MaskedCount(ax)
								case "NonMaskedCount":
									res = t.NonMaskedCount(ax)
								case "MaskedAny":
									res = t.MaskedAny(ax)
								case "MaskedAll":
									res = t.MaskedAll(ax)
								}
								return nil
							})
							r.Op(1)
							if o.Class != "ok" {
								add("%s(%d) panicked: %v", q, ax, o.Panic)
								continue
							}
							rd, ok := res.(*tensor.Dense)
							if !ok {
								add("%s(%d) returned %T", q, ax, res)
								continue
							}
							// model: fold the mask along ax
							var oshape []int
							for i, dd := range shape {
								if i != ax {
									oshape = append(oshape, dd)
								}
							}
							wantN := ref.Prod(oshape)
							counts := make([]int, wantN)
							oc := make([]int, len(oshape))
							ref.ForCoords(shape, func(c []int) {
								j := 0
								for i := range c {
									if i != ax {
										oc[j] = c[i]
										j++
									}
								}
								if marr.At(c).(bool) {
									counts[ref.RowRank(oshape, oc)]++
								}
							})
							got, err := atlas.Logical(rd)
							if err != nil || len(got) != wantN {
								add("%s(%d): result shape %v unreadable/mismatched, expected shape %v", q, ax, rd.Shape(), oshape)
								continue
							}
							for k := range counts {
								var want interface{}
								switch q {
								case "MaskedCount":
									want = counts[k]
								case "NonMaskedCount":
									want = shape[ax] - counts[k]
								case "MaskedAny":
									want = counts[k] > 0
								case "MaskedAll":
									want = counts[k] == shape[ax]
								}
								if !reflect.DeepEqual(got[k], want) {
									add("%s(%d)[%d] = %v, expected %v", q, ax, k, got[k], want)
									break
								}
							}
						}
					}
				}
				// runs and edges on the flattened array
				runs := func(val bool) [][2]int {
					var out [][2]int
					i := 0
					for i < n {
						if mask[i] == val {
							j := i
							for j < n && mask[j] == val {
								j++
							}
							out = append(out, [2]int{i, j})
							i = j
						} else {
							i++
						}
					}
					return out
				}
				chkRuns := func(name string, got []tensor.Slice, want [][2]int) {
					r.Op(1)
					var g [][2]int
					for _, s := range got {
						g = append(g, [2]int{s.Start(), s.End()})
					}
					if !reflect.DeepEqual(g, want) && !(len(g) == 0 && len(want) == 0) {
						add("%s = %v, expected %v", name, g, want)
					}
				}
				t = mk()
				var sl []tensor.Slice
				if o := call(func() error { sl = t.FlatMaskedContiguous(); return nil }); o.Class == "ok" {
					chkRuns("FlatMaskedContiguous", sl, runs(true))
				} else {
					add("FlatMaskedContiguous panicked: %v", o.Panic)
				}
				t = mk()
				if o := call(func() error { sl = t.FlatNotMaskedContiguous(); return nil }); o.Class == "ok" {
					chkRuns("FlatNotMaskedContiguous", sl, runs(false))
				} else {
					add("FlatNotMaskedContiguous panicked: %v", o.Panic)
				}
				edges := func(val bool) (int, int) {
					first, last := -1, -1
					for i, m := range mask {
						if m == val {
							if first < 0 {
								first = i
							}
							last = i
						}
					}
					return first, last
				}
				t = mk()
				var e1, e2 int
				if o := call(func() error { e1, e2 = t.FlatMaskedEdges(); return nil }); o.Class == "ok" {
					r.Op(1)
					if w1, w2 := edges(true); e1 != w1 || e2 != w2 {
						add("FlatMaskedEdges = (%d,%d), expected (%d,%d)", e1, e2, w1, w2)
					}
				} else {
					add("FlatMaskedEdges panicked: %v", o.Panic)
				}
				t = mk()
				if o := call(func() error { e1, e2 = t.FlatNotMaskedEdges(); return nil }); o.Class == "ok" {
					r.Op(1)
					if w1, w2 := edges(false); e1 != w1 || e2 != w2 {
						add("FlatNotMaskedEdges = (%d,%d), expected (%d,%d)", e1, e2, w1, w2)
					}
				} else {
					add("FlatNotMaskedEdges panicked: %v", o.Panic)
				}
				// Filled / FilledInplace
				for _, inplace := range []bool{false, true} {
					t = mk()
					var res interface{}
					o := call(func() (e error) {
						if inplace {
							res, e = t.FilledInplace(float64(-9))
						} else {
							res, e = t.Filled(float64(-9))
						}
						return
					})
					r.Op(1)
					name := map[bool]string{false: "Filled", true: "FilledInplace"}[inplace]
					if o.Class != "ok" {
						add("%s refused: %s", name, o)
						continue
					}
					rd, ok := res.(*tensor.Dense)
					if !ok {
						add("%s returned %T", name, res)
						continue
					}
					got, err := atlas.Logical(rd)
					if err != nil || len(got) != n {
						add("%s result unreadable", name)
						continue
					}
					for i := range got {
						want := back[i]
						if mask[i] {
							want = -9
						}
						if got[i] != want {
							add("%s(-9): element %d is %v, expected %v (mask %s)", name, i, got[i], want, bitsOf(mask))
							break
						}
					}
					if !inplace {
						src, _ := atlas.Logical(t)
						for i := range src {
							if src[i] != back[i] {
								add("Filled changed its receiver")
								break
							}
						}
					}
				}
				if len(fails) == 0 {
					return nil
				}
				sig := make([]string, len(fails))
				for i, f := range fails {
					sig[i] = strings.SplitN(f, " ", 2)[0]
				}
				return core.F("wrong-mask-query", fmt.Sprintf("%x", core.H64(strings.Join(sig, ";"))), "%s", strings.Join(fails, " ; "))
			})
		}
	}
}

// c15MaskedOps: elementwise operations on masked operands agree with unmasked operands at every position valid in
// all operands.
func c15MaskedOps(r *core.Run) {
	d := ref.Float64
	shape := []int{2, 2}
	n := 4
	r.SetBound("masked_operands", "Add, Sub, Mul, Lt, Neg on (2,2) float64/int operands with every pair of masks over 4 elements (none/any on each side), safe and unsafe")
	for _, dd := range []ref.DT{d, ref.Int} {
		for _, op := range []string{"Add", "Sub", "Mul", "Lt", "Neg"} {
			for ma := -1; ma < 16; ma++ {
				if !r.Take() {
					continue
				}
				for mb := -1; mb < 16; mb++ {
					if op == "Neg" && mb >= 0 {
						continue
					}
					for _, unsafe := range []bool{false, true} {
						dd, op, ma, mb, unsafe := dd, op, ma, mb, unsafe
						id := fmt.Sprintf("C15|maskedop|%s|%s|ma=%d|mb=%d|unsafe=%v", op, dd.Name, ma, mb, unsafe)
						if r.ReplayCase != "" && id != r.ReplayCase {
							continue
						}
						r.Case(id, true, func() *core.Fail {
							tensor.VerifResetPools()
							av, bv, _ := ewVals(dd, n, "id")
							mk := func(vals []interface{}, mbits int) *tensor.Dense {
								back := dd.MakeSlice(n)
								for i, v := range vals {
									ref.SliceSet(back, i, v)
								}
								if mbits < 0 {
									return tensor.New(tensor.WithShape(shape...), tensor.WithBacking(back))
								}
								m := make([]bool, n)
								for i := range m {
									m[i] = mbits&(1<<uint(i)) != 0
								}
								return tensor.New(tensor.WithShape(shape...), tensor.WithBacking(back, m))
							}
							A, B := mk(av, ma), mk(bv, mb)
							var opts []tensor.FuncOpt
							if unsafe {
								opts = append(opts, tensor.UseUnsafe())
							}
							var res tensor.Tensor
							o := call(func() (e error) {
								if op == "Neg" {
									res, e = tensor.Neg(A, opts...)
								} else {
									res, e = binFns[op](A, B, opts...)
								}
								return
							})
							r.Op(1)
							r.Outcome("maskedop:" + o.Class)
							if o.Class != "ok" {
								return nil
							}
							rd := res.(*tensor.Dense)
							got, err := atlas.Logical(rd)
							if err != nil || len(got) != n {
								return core.F("wrong-value", "unreadable", "result unreadable")
							}
							for i := 0; i < n; i++ {
								if (ma >= 0 && ma&(1<<uint(i)) != 0) || (mb >= 0 && mb&(1<<uint(i)) != 0) {
									continue
								}
								var want interface{}
								switch op {
								case "Neg":
									want = ref.Unary("Neg", av[i]).V
								case "Lt":
									want = ref.Compare("Lt", av[i], bv[i]).V
									if unsafe {
										want = ref.BoolAs(dd, want.(bool))
									}
								default:
									want = ref.Arith(op, av[i], bv[i]).V
								}
								if !ref.Same(got[i], want) {
									return core.F("wrong-value", fmt.Sprintf("el%d", i), "%s with masks a=%d b=%d unsafe=%v: valid position %d is %s, expected %s", op, ma, mb, unsafe, i, ref.Fmt(got[i]), ref.Fmt(want))
								}
							}
							return nil
						})
					}
				}
			}
		}
	}
}

// c15Attachment: the mask stays attached to its elements through T, Transpose, Slice, Clone, Materialize.
func c15Attachment(r *core.Run) {
	shapes := [][]int{{2, 3}, {3, 2}, {2, 2, 2}, {4}, {1, 4}}
	r.SetBound("attachment", fmt.Sprintf("every mask over shapes %v x {T, T+Transpose, Slice rows, Slice cols, Clone, Materialize of a slice, SafeT}", shapes))
	for _, shape := range shapes {
		n := ref.Prod(shape)
		for mb := 0; mb < 1<<uint(n); mb++ {
			if !r.Take() {
				continue
			}
			if r.Expired() {
				return
			}
			for _, op := range []string{"T", "T+Transpose", "SliceRows", "SliceCols", "Clone", "SliceRows+Materialize", "SafeT"} {
				shape, mb, op := shape, mb, op
				id := fmt.Sprintf("C15|attach|%s|%s|mask=%0*b", op, shapeStr(shape), n, mb)
				if r.ReplayCase != "" && id != r.ReplayCase {
					continue
				}
				r.Case(id, true, func() *core.Fail {
					tensor.VerifResetPools()
					back := make([]float64, n)
					mask := make([]bool, n)
					for i := range back {
						back[i] = float64(i + 1)
						mask[i] = mb&(1<<uint(i)) != 0
					}
					t := tensor.New(tensor.WithShape(shape...), tensor.WithBacking(back, mask))
					// model: (value, mask) pairs as logical arrays
					varr := ref.Arr{DT: ref.Float64, Shape: shape, El: make([]interface{}, n)}
					marr := ref.Arr{DT: ref.Bool, Shape: shape, El: make([]interface{}, n)}
					for i := range back {
						varr.El[i] = back[i]
						marr.El[i] = mask[i]
					}
					var res *tensor.Dense
					rk := len(shape)
					o := call(func() (e error) {
						switch op {
						case "T":
							e = t.T()
							res = t
						case "T+Transpose":
							if e = t.T(); e == nil {
								e = t.Transpose()
							}
							res = t
						case "SafeT":
							res, e = t.SafeT()
						case "Clone":
							res = t.Clone().(*tensor.Dense)
						case "SliceRows", "SliceRows+Materialize":
							var v tensor.View
							v, e = t.Slice(tensor.S(1, shape[0]))
							if e == nil {
								res = v.(*tensor.Dense)
								if op == "SliceRows+Materialize" {
									res = res.Materialize().(*tensor.Dense)
								}
							}
						case "SliceCols":
							if rk < 2 {
								return fmt.Errorf("n/a")
							}
							var v tensor.View
							v, e = t.Slice(nil, tensor.S(1, shape[1]))
							if e == nil {
								res = v.(*tensor.Dense)
							}
						}
						return
					})
					r.Op(1)
					r.Outcome("attach:" + op + ":" + o.Class)
					if o.Class != "ok" || res == nil {
						return nil
					}
					// expected logical arrays
					wv, wm := varr, marr
					switch op {
					case "T", "T+Transpose", "SafeT":
						if rk >= 2 {
							wv, wm = varr.Permute(ref.Reversal(rk)), marr.Permute(ref.Reversal(rk))
						}
					case "SliceRows", "SliceRows+Materialize", "SliceCols":
						sl := []ref.Sl{{Start: 1, End: shape[0], Step: 1}}
						if op == "SliceCols" {
							sl = []ref.Sl{{Nil: true}, {Start: 1, End: shape[1], Step: 1}}
						}
						if shape[0] < 2 && op != "SliceCols" {
							return nil
						}
						v, drop, err := ref.RootC(shape).Slice(sl)
						if err != nil {
							return nil
						}
						which, ok := ref.MatchDropped(v.Shape, drop, res.Shape())
						if !ok {
							return nil // shape divergence is C02's subject
						}
						v = v.DropAxes(which)
						wv = ref.Arr{DT: ref.Float64, Shape: v.Shape, El: make([]interface{}, len(v.Cell))}
						wm = ref.Arr{DT: ref.Bool, Shape: v.Shape, El: make([]interface{}, len(v.Cell))}
						for i, c := range v.Cell {
							wv.El[i] = back[c]
							wm.El[i] = mask[c]
						}
					}
					if !ref.EqInts(res.Shape(), wv.Shape) {
						return nil
					}
					if !res.IsMasked() {
						if mb == 0 {
							return nil
						}
						return core.F("wrong-mask", "lost", "%s of a masked tensor (mask %s) returns an unmasked tensor", op, bitsOf(mask))
					}
					i := 0
					var fail *core.Fail
					ref.ForCoords(wv.Shape, func(c []int) {
						if fail != nil {
							return
						}
						v, e1 := res.At(c...)
						m, e2 := res.MaskAt(c...)
						if e1 != nil || e2 != nil {
							fail = core.F("wrong-mask", "unreadable", "%s: At/MaskAt(%v) failed: %v %v", op, c, e1, e2)
							return
						}
						if v != wv.El[i] || m != wm.El[i].(bool) {
							fail = core.F("wrong-mask", fmt.Sprintf("c%d", i), "%s of shape %v mask %s: coordinate %v has (value %v, masked %v), expected (%v, %v)", op, shape, bitsOf(mask), c, v, m, wv.El[i], wm.El[i])
						}
						i++
					})
					return fail
				})
			}
		}
	}
}
