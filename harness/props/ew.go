package props

import (
	"fmt"
	"math"
	"reflect"
	"strings"

	"gorgonia.org/tensor"
	"verifharness/atlas"
	"verifharness/core"
	"verifharness/ref"
)

// Shared executor for elementwise operations (arithmetic, comparison, unary) in every option mode.

type binFn func(a, b interface{}, opts ...tensor.FuncOpt) (tensor.Tensor, error)
type unFn func(a tensor.Tensor, opts ...tensor.FuncOpt) (tensor.Tensor, error)
type mTT func(t, o *tensor.Dense, opts ...tensor.FuncOpt) (*tensor.Dense, error)
type mTS func(t *tensor.Dense, o interface{}, left bool, opts ...tensor.FuncOpt) (*tensor.Dense, error)

var arithOps = []string{"Add", "Sub", "Mul", "Div", "Mod", "Pow", "MinBetween", "MaxBetween"}
var cmpOps = []string{"Lt", "Gt", "Lte", "Gte", "ElEq", "ElNe"}
var unaryOps = []string{"Neg", "Inv", "Square", "Cube", "Abs", "Sign", "Sqrt", "Cbrt", "InvSqrt", "Exp", "Log", "Log2", "Log10", "Tanh"}

var binFns = map[string]binFn{"Add": tensor.Add, "Sub": tensor.Sub, "Mul": tensor.Mul, "Div": tensor.Div, "Mod": tensor.Mod, "Pow": tensor.Pow,
	"MinBetween": tensor.MinBetween, "MaxBetween": tensor.MaxBetween,
	"Lt": tensor.Lt, "Gt": tensor.Gt, "Lte": tensor.Lte, "Gte": tensor.Gte, "ElEq": tensor.ElEq, "ElNe": tensor.ElNe}
var unFns = map[string]unFn{"Neg": tensor.Neg, "Inv": tensor.Inv, "Square": tensor.Square, "Cube": tensor.Cube, "Abs": tensor.Abs, "Sign": tensor.Sign,
	"Sqrt": tensor.Sqrt, "Cbrt": tensor.Cbrt, "InvSqrt": tensor.InvSqrt, "Exp": tensor.Exp, "Log": tensor.Log, "Log2": tensor.Log2, "Log10": tensor.Log10, "Tanh": tensor.Tanh}
var methTT = map[string]mTT{"Add": (*tensor.Dense).Add, "Sub": (*tensor.Dense).Sub, "Mul": (*tensor.Dense).Mul, "Div": (*tensor.Dense).Div, "Mod": (*tensor.Dense).Mod, "Pow": (*tensor.Dense).Pow,
	"Lt": (*tensor.Dense).Lt, "Gt": (*tensor.Dense).Gt, "Lte": (*tensor.Dense).Lte, "Gte": (*tensor.Dense).Gte, "ElEq": (*tensor.Dense).ElEq, "ElNe": (*tensor.Dense).ElNe}
var methTS = map[string]mTS{"Add": (*tensor.Dense).AddScalar, "Sub": (*tensor.Dense).SubScalar, "Mul": (*tensor.Dense).MulScalar, "Div": (*tensor.Dense).DivScalar, "Mod": (*tensor.Dense).ModScalar, "Pow": (*tensor.Dense).PowScalar,
	"Lt": (*tensor.Dense).LtScalar, "Gt": (*tensor.Dense).GtScalar, "Lte": (*tensor.Dense).LteScalar, "Gte": (*tensor.Dense).GteScalar, "ElEq": (*tensor.Dense).ElEqScalar, "ElNe": (*tensor.Dense).ElNeScalar}

// OPSH are the op-matrix shapes.
var OPSH = [][]int{{}, {1}, {3}, {1, 3}, {3, 1}, {1, 1}, {2, 3}, {3, 2}, {2, 1, 3}, {2, 3, 2}, {1, 1, 1}, {2, 2, 2, 2}, {2, 1, 2, 3}}

// (lengths on both sides of the widths the vectorised kernels unroll by: 8, 16, 32)
var OPSHX = [][]int{{4, 3}, {3, 3, 3}, {2, 3, 2, 2}, {5}, {1, 5}, {8}, {17}, {33}, {4, 9}}

func edgeVals(d ref.DT) []interface{} {
	switch d.Class {
	case ref.CInt:
		min := -(1 << uint(d.Bits-1))
		max := (1 << uint(d.Bits-1)) - 1
		if d.Bits == 64 {
			min, max = math.MinInt64, math.MaxInt64
		}
		return []interface{}{d.Code(min), d.Code(max), d.Code(-1), d.Code(0), d.Code(1), d.Code(2), d.Code(3), d.Code(-7), d.Code(max - 1), d.Code(10)}
	case ref.CUint:
		return []interface{}{d.Code(0), d.Code(-1), d.Code(1), d.Code(2), d.Code(3), d.Code(-2), d.Code(7), d.Code(100), d.Code(0), d.Code(10)}
	case ref.CFloat:
		if d.Name == "float32" {
			return []interface{}{float32(math.Inf(1)), float32(math.Inf(-1)), float32(math.NaN()), float32(math.Copysign(0, -1)), float32(0), float32(1), float32(-1), float32(2.5), float32(math.MaxFloat32), float32(math.SmallestNonzeroFloat32), float32(-7), float32(0.5),
				math.Float32frombits(0x15ae43fd)} // 7.038531e-26: its shortest decimal rounds differently via float64 (double rounding witness for text formats)
		}
		return []interface{}{math.Inf(1), math.Inf(-1), math.NaN(), math.Copysign(0, -1), 0.0, 1.0, -1.0, 2.5, math.MaxFloat64, math.SmallestNonzeroFloat64, -7.0, 0.5}
	case ref.CComplex:
		if d.Name == "complex64" {
			return []interface{}{complex64(0), complex64(1), complex64(1i), complex64(-2 + 3i), complex64(1e10 + 1e10i), complex64(-1 - 1i), complex64(0.5 - 2i), complex64(3)}
		}
		return []interface{}{complex128(0), complex128(1), complex128(1i), complex128(-2 + 3i), complex128(1e10 + 1e10i), complex128(-1 - 1i), complex128(0.5 - 2i), complex128(3)}
	case ref.CString:
		return []interface{}{"", "a\nb", " x", "a,b", "x ", "q\"q", "\t", "é", "b", "a", "zz", "A", "x y", "-", "ab", "#x"} // (C14 rotates the list: the last value comes first - a leading '#' in the first cell of a CSV row)
	case ref.CBool:
		return []interface{}{true, false, false, true, true, false}
	}
	return []interface{}{d.Code(0), d.Code(1), d.Code(2), d.Code(1), d.Code(3), d.Code(0)}
}

// ewVals returns the logical values of operands a and b (n elements each) and the scalar for TS/ST forms.
func ewVals(d ref.DT, n int, vs string) (a, b []interface{}, s interface{}) {
	a, b = make([]interface{}, n), make([]interface{}, n)
	switch vs {
	case "id": // injective small positive values, no zero divisors, small exact results
		for i := 0; i < n; i++ {
			a[i] = d.Code(i + 2)
			b[i] = d.Code((i*3)%5 + 1)
		}
		s = d.Code(3)
	case "eq": // pairs that tie (comparisons) and sign mixes
		for i := 0; i < n; i++ {
			a[i] = d.Code((i % 4) - 1)
			b[i] = d.Code(((i + i/2) % 4) - 1)
		}
		s = d.Code(-1) // equals the first element of both operands: ties also for one-element tensors
	case "edge":
		e := edgeVals(d)
		for i := 0; i < n; i++ {
			a[i] = e[i%len(e)]
			b[i] = e[(i*5+3)%len(e)]
		}
		s = e[(n+1)%len(e)]
	case "zmid": // zero divisors at the second and the second-to-last position (positions whose storage offset differs between layouts)
		for i := 0; i < n; i++ {
			a[i] = d.Code(i*3 + 6)
			b[i] = d.Code(i%2 + 1)
			if i == 1 || i == n-2 {
				b[i] = d.Code(0)
			}
		}
		s = d.Code(0)
	case "edge@0", "edge@1", "edge@2", "edge@3", "edge@4", "edge@5", "edge@6", "edge@7", "edge@8", "edge@9":
		// the edge operands against one special SCALAR (exponents and factors kernels are tempted to shortcut)
		e := edgeVals(d)
		for i := 0; i < n; i++ {
			a[i] = e[i%len(e)]
			b[i] = e[(i*5+3)%len(e)]
		}
		sp := specialScalars(d)
		s = sp[int(vs[5]-'0')%len(sp)]
	case "round": // floats: magnitudes at which a sum of two operands rounds, so that re-associated accumulation shows
		u := float64(uint64(1) << 53)
		if d.Name == "float32" || d.Name == "complex64" {
			u = float64(1 << 24)
		}
		av := []float64{u + 2, u, 3, u + 4, 0.1}
		bv := []float64{u, u, 2, u + 2, 0.2}
		for i := 0; i < n; i++ {
			a[i] = ref.FromFloat(d, av[i%len(av)])
			b[i] = ref.FromFloat(d, bv[i%len(bv)])
		}
		s = ref.FromFloat(d, u)
	case "recip": // floats: subnormal dividends whose exact quotient by 98 / 210 is a tie between neighbouring values -
		// x/b and x*(1/b) (also with the reciprocal taken in a wider type) round differently there
		tiny := math.SmallestNonzeroFloat64
		if d.Name == "float32" || d.Name == "complex64" {
			tiny = float64(math.SmallestNonzeroFloat32)
		}
		av := []float64{147, 343, 525, 49, 3, 245, 735}
		bv := []float64{98, 98, 210, 98, 2, 98, 210}
		for i := 0; i < n; i++ {
			a[i] = ref.FromFloat(d, av[i%len(av)]*tiny)
			b[i] = ref.FromFloat(d, bv[i%len(bv)])
		}
		s = ref.FromFloat(d, 98)
	case "edges@0", "edges@1", "edges@2", "edges@3", "edges@4", "edges@5", "edges@6", "edges@7", "edges@8", "edges@9", "edges@10", "edges@11", "edges@12":
		// the edge operands against each edge value as the SCALAR (the extremes of the type among them: kernels that
		// rewrite s <= x as s < x+1 and the like go wrong exactly there)
		e := edgeVals(d)
		for i := 0; i < n; i++ {
			a[i] = e[i%len(e)]
			b[i] = e[(i*5+3)%len(e)]
		}
		k := 0
		fmt.Sscanf(vs[6:], "%d", &k)
		s = e[k%len(e)]
	case "edge2":
		e := edgeVals(d)
		for i := 0; i < n; i++ {
			a[i] = e[(i+4)%len(e)]
			b[i] = e[(i*3+1)%len(e)]
		}
		s = e[0]
	default:
		panic(vs)
	}
	return
}

// specialScalars: scalar operands that invite shortcuts (0, 1, 2, 3, -1, 1/2, -1/2, 1/3, +Inf, NaN where the type has them).
func specialScalars(d ref.DT) []interface{} {
	var fs []float64
	switch d.Class {
	case ref.CFloat:
		fs = []float64{0.5, -0.5, 2, 3, -1, 0, 1, 1.0 / 3, math.Inf(1), math.NaN()}
	case ref.CComplex:
		fs = []float64{0.5, 2, 0, 1, -1, 3}
	case ref.CInt:
		fs = []float64{0, 1, 2, -1, 3}
	default:
		fs = []float64{0, 1, 2, 3}
	}
	out := make([]interface{}, len(fs))
	for i, f := range fs {
		if d.Class == ref.CComplex {
			out[i] = reflect.ValueOf(complex(f, 0)).Convert(d.D.Type).Interface()
		} else {
			out[i] = reflect.ValueOf(f).Convert(d.D.Type).Interface()
		}
	}
	return out
}

type ewCase struct {
	kind   string // arith | cmp | unary | clamp
	op     string
	form   string // TT TS ST TSt (scalar given as a scalar Tensor) StT  U
	mode   string // safe unsafe reuse:<lay> reuse=a reuse=b reuse:reshape reuse:wrongsize incr:<lay> ; cmp adds "same" prefix: same+safe ...
	api    string // func | method
	d      ref.DT
	shape  []int
	layA   string
	layB   string
	vs     string
	strict bool // C06/C11/C12: a refusal of a deliverable input is a violation
	wide   bool // TSt/StT: the scalar tensor is a ONE-element view with a wider storage window (p[0:3:3])
}

func (c ewCase) id(prop string) string {
	form := c.form
	if c.wide {
		form += ":w"
	}
	return fmt.Sprintf("%s|%s|%s|%s|%s|a=%s|b=%s|%s|%s|%s|%s", prop, c.op, c.d.Name, form, shapeStr(c.shape), c.layA, c.layB, c.vs, c.api, c.mode, c.kind)
}

// scalarTensor builds the scalar operand as a tensor: a plain rank-0 tensor, or (wide) a scalar-shaped view that selects
// one element of a longer vector through a stepped range, so that its storage window holds more than its one element.
func scalarTensor(d ref.DT, sv interface{}, wide bool) *tensor.Dense {
	if !wide {
		return tensor.New(tensor.FromScalar(sv))
	}
	back := d.MakeSlice(3)
	ref.SliceSet(back, 0, sv)
	ref.SliceSet(back, 1, atlas.Poison(d, 1))
	ref.SliceSet(back, 2, atlas.Poison(d, 2))
	p := tensor.New(tensor.WithShape(3), tensor.WithBacking(back))
	v, err := p.Slice(tensor.S(0, 3, 3))
	if err != nil {
		panic(err)
	}
	return v.(*tensor.Dense)
}

func overlaps(t *tensor.Dense, root interface{}) bool {
	m := tensor.VerifMetaOf(t)
	rb := atlas.RootBytes(root)
	if len(rb) == 0 || m.RawLen == 0 {
		return false
	}
	lo := atlas.RootPtr(root)
	hi := lo + uintptr(len(rb))
	return m.RawPtr < hi && m.RawPtr+uintptr(m.RawLen) > lo
}

// supported reports whether the library accepts (op, element type) at all, probed once on the plainest input
// (contiguous length-3 vectors, injective values, safe mode). "Element types an operation does not support are
// refused" — but support must not depend on layout, form or mode: for an unsupported pair every case must be refused.
var supportCache = map[string]bool{}

func supported(kind, op string, d ref.DT) bool {
	k := kind + "|" + op + "|" + d.Name
	if v, ok := supportCache[k]; ok {
		return v
	}
	tensor.VerifResetPools()
	av, bv, _ := ewVals(d, 3, "id")
	A := mkContig(d, []int{3}, av)
	B := mkContig(d, []int{3}, bv)
	o := call(func() (e error) {
		switch kind {
		case "unary":
			_, e = unFns[op](A)
		case "clamp":
			_, e = tensor.Clamp(A, d.Code(-1), d.Code(2))
		default:
			_, e = binFns[op](A, B)
		}
		return
	})
	supportCache[k] = o.Class == "ok"
	return supportCache[k]
}

// ewExec executes one case. Returns (fail, outcome class for statistics).
func ewExec(r *core.Run, c ewCase) (*core.Fail, string) {
	d := c.d
	n := ref.Prod(c.shape)
	av, bv, sv := ewVals(d, n, c.vs)
	same := strings.HasPrefix(c.mode, "same+")
	mode := strings.TrimPrefix(c.mode, "same+")
	incr := strings.HasPrefix(mode, "incr:") || strings.HasPrefix(mode, "incr=")
	var A, B, D *atlas.Built
	var err error
	build := func(vals []interface{}, lay string, dt ref.DT) (*atlas.Built, error) {
		b, e := atlas.Build(dt, c.shape, vals, lay)
		if e != nil {
			return nil, e
		}
		if e := b.VerifyLogical(); e != nil {
			return nil, e
		}
		return b, nil
	}
	needA := c.form != "ST" && c.form != "StT"
	needB := c.form == "TT" || c.form == "ST" || c.form == "StT"
	if needA {
		if A, err = build(av, c.layA, d); err != nil {
			return nil, "skip:" + c.layA
		}
	}
	if needB && c.layB == "=a" {
		// the SAME tensor on both sides (x op x): one object, one storage, whatever shortcuts identity invites
		if A == nil {
			return nil, "skip:=a"
		}
		B = A
		bv = av
	} else if needB {
		if B, err = build(bv, c.layB, d); err != nil {
			return nil, "skip:" + c.layB
		}
	}
	for _, x := range []*atlas.Built{A, B} {
		if x != nil {
			r.State(x.DT.Name + "|" + atlas.StateKey(x.T, atlas.RootPtr(x.Root)))
		}
	}
	// model
	want := make([]ref.Res, n)
	for i := 0; i < n; i++ {
		var x, y interface{}
		switch c.form {
		case "TT":
			x, y = av[i], bv[i]
		case "TS", "TSt":
			x, y = av[i], sv
		case "ST", "StT":
			x, y = sv, bv[i]
		case "U":
			x = av[i]
		}
		switch c.kind {
		case "arith":
			want[i] = ref.Arith(c.op, x, y)
		case "cmp":
			want[i] = ref.Compare(c.op, x, y)
		case "unary":
			want[i] = ref.Unary(c.op, x)
		case "clamp":
			want[i] = ref.Clamp(x, d.Code(-1), d.Code(2))
		}
	}
	anyRefuse, allSkip := false, n > 0
	for _, w := range want {
		if w.Refuse {
			anyRefuse = true
		}
		if !w.Skip {
			allSkip = false
		}
	}
	// result element type
	resDT := d
	if c.kind == "cmp" && !same && mode != "unsafe" && mode != "reuse=a" && mode != "reuse=b" {
		resDT = ref.Bool // in place (unsafe, or a reuse tensor that is an operand) the result has the operand type
	}
	// destination
	var opts []tensor.FuncOpt
	var dest *atlas.Built // tensor designated to receive the result (nil = fresh)
	destOld := []interface{}(nil)
	tensorOperand := A
	if !needA {
		tensorOperand = B
	}
	switch {
	case mode == "safe":
	case mode == "unsafe":
		opts = append(opts, tensor.UseUnsafe())
		dest = tensorOperand
	case (mode == "reuse=a" && A == nil) || (mode == "reuse=b" && B == nil):
		return nil, "skip:reuse-operand-absent"
	case (mode == "incr=a" && A == nil) || (mode == "incr=b" && B == nil):
		return nil, "skip:incr-operand-absent"
	case mode == "incr=a":
		// the increment tensor is an operand: it ends up holding its old elements plus the result computed from them
		dest = A
		destOld = append([]interface{}{}, av...)
		opts = append(opts, tensor.WithIncr(A.T))
	case mode == "incr=b":
		dest = B
		destOld = append([]interface{}{}, bv...)
		opts = append(opts, tensor.WithIncr(B.T))
	case mode == "reuse=a":
		dest = A
		opts = append(opts, tensor.WithReuse(A.T))
	case mode == "reuse=b":
		dest = B
		opts = append(opts, tensor.WithReuse(B.T))
	case strings.HasPrefix(mode, "reuse:") || strings.HasPrefix(mode, "incr:"):
		lay := mode[strings.Index(mode, ":")+1:]
		dv := make([]interface{}, n)
		for i := range dv {
			dv[i] = resDT.Code(i%3 + 1)
		}
		shape := c.shape
		switch lay {
		case "reshape": // right size, other shape
			if n < 2 {
				return nil, "skip:reshape"
			}
			D, err = atlas.Build(resDT, []int{n}, dv, "C")
			if len(c.shape) == 1 {
				D, err = atlas.Build(resDT, []int{1, n}, dv, "C")
			}
		case "wrongsize":
			dv = append(dv, resDT.Code(9))
			D, err = atlas.Build(resDT, []int{n + 1}, dv, "C")
		case "wrongtype": // right shape, another element type than the result has
			wdt := ref.Float64
			if resDT.Name == "float64" {
				wdt = ref.Float32
			}
			for i := range dv {
				dv[i] = wdt.Code(i%3 + 1)
			}
			D, err = atlas.Build(wdt, shape, dv, "C")
		default:
			D, err = atlas.Build(resDT, shape, dv, lay)
		}
		if err != nil {
			return nil, "skip:dest"
		}
		dest = D
		destOld = dv
		if strings.HasPrefix(mode, "reuse:") {
			opts = append(opts, tensor.WithReuse(D.T))
		} else {
			opts = append(opts, tensor.WithIncr(D.T))
		}
	default:
		panic("mode " + mode)
	}
	if same {
		opts = append(opts, tensor.AsSameType())
	}
	// snapshots
	var snapA, snapB, snapD atlas.Snap
	if A != nil {
		snapA = A.Snapshot()
	}
	if B != nil {
		snapB = B.Snapshot()
	}
	if D != nil {
		snapD = D.Snapshot()
	}
	// call
	var res tensor.Tensor
	var scalarT *tensor.Dense
	o := call(func() (e error) {
		switch c.kind {
		case "unary":
			res, e = unFns[c.op](A.T, opts...)
		case "clamp":
			res, e = tensor.Clamp(A.T, d.Code(-1), d.Code(2), opts...)
		default:
			if c.api == "method" {
				var rd *tensor.Dense
				switch c.form {
				case "TT":
					rd, e = methTT[c.op](A.T, B.T, opts...)
				case "TS":
					rd, e = methTS[c.op](A.T, sv, true, opts...)
				case "ST":
					rd, e = methTS[c.op](B.T, sv, false, opts...)
				}
				if rd != nil {
					res = rd
				}
				return
			}
			switch c.form {
			case "TT":
				res, e = binFns[c.op](A.T, B.T, opts...)
			case "TS":
				res, e = binFns[c.op](A.T, sv, opts...)
			case "ST":
				res, e = binFns[c.op](sv, B.T, opts...)
			case "TSt":
				scalarT = scalarTensor(d, sv, c.wide)
				res, e = binFns[c.op](A.T, scalarT, opts...)
			case "StT":
				scalarT = scalarTensor(d, sv, c.wide)
				res, e = binFns[c.op](scalarT, B.T, opts...)
			}
		}
		return
	})
	r.Op(1)
	// a scalar handed over as a scalar tensor is an operand like any other: it must come back unchanged
	if scalarT != nil {
		var now interface{}
		if oc := call(func() error { now = scalarT.ScalarValue(); return nil }); oc.Class != "ok" || !ref.Same(now, sv) {
			return core.F("operand-changed", "scalar-tensor", "the scalar tensor operand (value %s) reads %s after the call (%s)", ref.Fmt(sv), ref.Fmt(now), oc), o.Class
		}
	}
	// frame: tensors that are not the destination must be unchanged
	chk := func(b *atlas.Built, s atlas.Snap, name string) *core.Fail {
		if b == nil || b == dest {
			return nil
		}
		if ch := b.Changed(s); ch != "" {
			tag := ""
			if n == 1 && incr && c.kind == "arith" && len(b.View.Cell) == 1 && ((b == A && c.form != "ST") || (b == B && c.form == "ST")) {
				// DEFECT model of F-C07-incr-len1-mutates-a: for one-element operands the incr kernels first compute
				// op(a,b) in place in the (first) tensor operand and then add it to the increment tensor
				x, y := av[0], bv[0]
				switch c.form {
				case "TS", "TSt":
					y = sv
				case "ST", "StT":
					x = sv
				}
				if w := ref.Arith(c.op, x, y); !w.Refuse && !w.Skip {
					got := ref.SliceGet(b.Root, b.View.Cell[0])
					if ref.Same(got, w.V) || ref.Close(got, w.V) {
						tag = "[KF:incr-len1-mutates-a]"
					}
				} else if w.Refuse && c.op == "Div" && d.IsInteger() {
					// the same defect with a zero divisor: the kernel's "result" for that element is 0
					if got := ref.SliceGet(b.Root, b.View.Cell[0]); ref.Same(got, d.Code(0)) {
						tag = "[KF:incr-len1-mutates-a]"
					}
				}
			}
			return core.F("operand-changed"+tag, name, "%s (%s, not the destination) changed: %s", name, b.Layout, ch)
		}
		return nil
	}
	for _, x := range []struct {
		b *atlas.Built
		s atlas.Snap
		n string
	}{{A, snapA, "operand a"}, {B, snapB, "operand b"}} {
		if f := chk(x.b, x.s, x.n); f != nil {
			return f, o.Class
		}
	}
	// the destination's root outside its image must be unchanged in every case
	if dest != nil {
		s := snapD
		if dest == A {
			s = snapA
		} else if dest == B {
			s = snapB
		}
		img := map[int]bool{}
		for _, cell := range dest.View.Cell {
			img[cell] = true
		}
		for _, cell := range dest.ChangedCells(s) {
			if !img[cell] {
				return core.F("frame-violated", "dest", "destination (%s): root cell %d outside the destination's image changed (outcome %s)", dest.Layout, cell, o.Class), o.Class
			}
		}
	}
	wrongSize := strings.HasSuffix(mode, ":wrongsize")
	_ = wrongSize
	if strings.HasSuffix(mode, ":wrongtype") {
		// "mismatched element types are refused": a destination of another element type than the result cannot hold it
		if o.Class == "ok" && supported(c.kind, c.op, d) {
			return core.F("accepted-invalid", "wrongtype", "%s of %s operands wrote into a reuse tensor of element type %s (the result has %s): refused is the only right answer", c.op, d.Name, dest.DT.Name, resDT.Name), o.Class
		}
		return nil, "refused-as-required"
	}
	if !supported(c.kind, c.op, d) {
		// the library does not offer this operation for this element type: it must then refuse it everywhere
		if o.Class == "ok" {
			return core.F("accepted-invalid", "unsupported", "%s is refused for %s on plain operands but computed here: support depends on layout/form/mode", c.op, d.Name), o.Class
		}
		return nil, "refused-unsupported-type"
	}
	if o.Class != "ok" && lenient {
		return nil, "refused"
	}
	if o.Class != "ok" {
		if wrongSize || anyRefuse {
			return nil, "refused-as-required"
		}
		if allSkip {
			return nil, "refused-unjudged"
		}
		if c.strict || (dest == nil || mode == "unsafe") {
			tag := ""
			if (c.op == "MinBetween" || c.op == "MaxBetween") && mode == "unsafe" && o.Class == "panic" && fmt.Sprint(o.Panic) == "Unreachable" {
				tag = "[KF:minmax-unsafe-unreachable]"
			}
			return core.F("unexpected-refusal"+tag, "x", "%s refused: %s", c.op, o), o.Class
		}
		// option modes on exotic destinations: a refusal that changed nothing outside
		tag := ""
		if dest != nil && o.Class == "err" {
			if m := tensor.VerifMetaOf(dest.T); m.ElSize > 0 && m.RawLen/m.ElSize != n {
				// precondition of F-C07-view-destination-refused: the destination's storage window holds more
				// elements than the destination has (a non-contiguous view)
				tag = "[KF:view-destination-refused]"
			}
		}
		return core.F("unexpected-refusal[dest]"+tag, "x", "%s with mode %s refused: %s", c.op, mode, o), o.Class
	}
	if wrongSize {
		return core.F("accepted-invalid", "ws", "reuse/incr tensor of the wrong size was accepted"), o.Class
	}
	if anyRefuse {
		tag := ""
		if rd, ok := res.(*tensor.Dense); ok && rd != nil && c.op == "Div" && d.IsInteger() {
			// DEFECT model of F-C06-iter-div-zero-silent: on the iterator path the kernels' error is dropped; elements with
			// a zero divisor are set to 0 (also in an increment destination), all others are correct
			if got, e := atlas.Logical(rd); e == nil && len(got) == n {
				match := true
				for i := range got {
					switch {
					case want[i].Refuse:
						match = match && ref.Same(got[i], d.Code(0))
					case incr:
						ri := ref.Arith("Add", destOld[i], want[i].V)
						match = match && !ri.Refuse && !ri.Skip && ref.Same(got[i], ri.V)
					default:
						match = match && ref.Same(got[i], want[i].V)
					}
				}
				if !match && n == 1 && incr && ref.Same(got[0], destOld[0]) {
					match = true // one-element operands: nothing is added, no error either
				}
				if match {
					tag = "[KF:iter-div-zero-silent]"
				}
			}
		}
		return core.F("accepted-invalid"+tag, "refuse", "%s computed a result although an element has no Go value (e.g. integer division by zero): must be refused", c.op), o.Class
	}
	rd, ok := res.(*tensor.Dense)
	if !ok || rd == nil {
		return core.F("wrong-type", "t", "result is %T", res), o.Class
	}
	// identity
	if dest != nil {
		if rd != dest.T {
			return core.F("retval-identity", "id", "mode %s must return the designated destination tensor", mode), o.Class
		}
	} else {
		if (A != nil && rd == A.T) || (B != nil && rd == B.T) {
			return core.F("retval-identity", "id", "safe mode returned an operand"), o.Class
		}
		if (A != nil && overlaps(rd, A.Root)) || (B != nil && overlaps(rd, B.Root)) {
			return core.F("alias-unexpected", "al", "safe-mode result shares storage with an operand"), o.Class
		}
	}
	// dtype / shape
	if rd.Dtype() != resDT.D {
		return core.F("wrong-dtype", "dt", "result dtype %v, expected %v", rd.Dtype(), resDT.D), o.Class
	}
	wantShape := c.shape
	if !ref.EqInts(rd.Shape(), wantShape) {
		okShape := false
		if lay := mode[strings.Index(mode, ":")+1:]; lay == "reshape" && ref.Prod(rd.Shape()) == n {
			okShape = true // a reuse tensor of another shape: either shape is acceptable for the destination
		}
		if len(wantShape) == 0 && ref.Prod(rd.Shape()) == 1 {
			okShape = true
		}
		if !okShape {
			return core.F("wrong-shape", "sh", "result shape %v, expected %v", rd.Shape(), wantShape), o.Class
		}
	}
	got, gerr := atlas.Logical(rd)
	if gerr != nil {
		return core.F("wrong-value", "unreadable", "result unreadable: %v", gerr), o.Class
	}
	if len(got) != n {
		return core.F("wrong-shape", "n", "result has %d elements, expected %d", len(got), n), o.Class
	}
	kfDivZero, kfReuseB, kfMinMaxIncr, kfCmpLen1, kfIncrLen1 := false, false, false, false, false
	defer func() { _ = kfDivZero }()
	for i := 0; i < n; i++ {
		w := want[i]
		if w.Skip {
			continue
		}
		exp := w.V
		if c.kind == "cmp" {
			if resDT.Name == "bool" {
				exp = w.V.(bool)
			} else {
				exp = ref.BoolAs(resDT, w.V.(bool))
			}
		}
		approx := w.Approx
		plain := exp
		if incr {
			ri := ref.Arith("Add", destOld[i], exp)
			if ri.Skip || ri.Refuse {
				continue
			}
			exp = ri.V
			approx = approx || d.IsFloatCx()
		}
		okv := ref.Same(got[i], exp)
		if !okv && approx {
			okv = ref.Close(got[i], exp)
		}
		if !okv && c.op == "Div" && d.IsFloat() && !incr {
			// DEFECT model of F-C06-vecf-div-zero: the contiguous float kernels (vecf32/vecf64.Div) return +Inf for
			// EVERY zero divisor (Go gives -Inf for negative dividends or a negative zero divisor, NaN for 0/0)
			var dv interface{}
			switch c.form {
			case "TT", "ST", "StT":
				dv = bv[i]
				if c.form != "TT" {
					dv = bv[i]
				}
			case "TS", "TSt":
				dv = sv
			}
			if f, ok := ref.ToF64(dv); ok && f == 0 {
				if g, ok := ref.ToF64(got[i]); ok && math.IsInf(g, 1) {
					kfDivZero = true
					continue
				}
			}
		}
		if !okv && incr && (c.op == "MinBetween" || c.op == "MaxBetween") && ref.Same(got[i], plain) {
			kfMinMaxIncr = true // DEFECT model of F-C07-minmax-incr-overwrites: the increment tensor is overwritten with the result
			continue
		}
		if !okv && incr && n == 1 && (mode == "incr=a" || mode == "incr=b") {
			// consequence of F-C07-incr-len1-mutates-a: for one-element operands the first tensor operand is overwritten
			// with op(a,b) before that is added into the increment tensor - when the increment tensor is that operand
			// (or the same tensor as it) the result is added to itself
			if rr := ref.Arith("Add", plain, plain); !rr.Refuse && !rr.Skip && (ref.Same(got[i], rr.V) || ref.Close(got[i], rr.V)) {
				kfIncrLen1 = true
				continue
			}
		}
		if !okv && c.kind == "cmp" && mode == "unsafe" && (c.form == "ST" || c.form == "StT") && n == 1 && ref.Same(got[i], bv[i]) {
			kfCmpLen1 = true // DEFECT model of F-C11-cmp-unsafe-scalar-left-len1: the tensor is left unchanged
			continue
		}
		if !okv && mode == "reuse=b" && c.form == "TT" {
			// DEFECT model of F-C07-reuse-aliases-b: on the iterator path a is first copied into the reuse tensor (== b),
			// then the operation is applied to (reuse, b): the result is op(a, a)
			var alt ref.Res
			if c.kind == "cmp" {
				alt = ref.Compare(c.op, av[i], av[i])
				if !alt.Refuse {
					alt.V = ref.BoolAs(resDT, alt.V.(bool))
				}
			} else {
				alt = ref.Arith(c.op, av[i], av[i])
			}
			if !alt.Refuse && !alt.Skip && (ref.Same(got[i], alt.V) || ref.Close(got[i], alt.V)) {
				kfReuseB = true
				continue
			}
		}
		if !okv {
			if kfDivZero {
				kfDivZero = false
			}
			return core.F("wrong-value", fmt.Sprintf("el%d", i), "element %d: got %s, expected %s (a=%s b=%s scalar=%s) all got %s", i, ref.Fmt(got[i]), ref.Fmt(exp), elOr(av, i, needA), elOr(bv, i, needB), ref.Fmt(sv), ref.FmtEls(got)), o.Class
		}
	}
	if kfCmpLen1 {
		return core.F("wrong-value[KF:cmp-unsafe-scalar-left-len1]", "c1", "in-place comparison scalar OP one-element tensor leaves the tensor unchanged (the result is written into the scalar's temporary). got %s", ref.FmtEls(got)), o.Class
	}
	if kfIncrLen1 {
		return core.F("wrong-value[KF:incr-len1-mutates-a]", "il", "%s of one-element operands with an operand as increment tensor: the operand is overwritten with the result before the result is added into it. got %s", c.op, ref.FmtEls(got)), o.Class
	}
	if kfMinMaxIncr {
		return core.F("wrong-value[KF:minmax-incr-overwrites]", "mi", "%s with an increment tensor overwrites it with the result instead of adding to it. got %s", c.op, ref.FmtEls(got)), o.Class
	}
	if kfReuseB {
		return core.F("wrong-value[KF:reuse-aliases-b]", "rb", "reuse tensor == operand b on the iterator path: every deviating element equals op(a,a). got %s", ref.FmtEls(got)), o.Class
	}
	if kfDivZero {
		return core.F("wrong-value[KF:vecf-div-zero]", "dz", "float division by a zero divisor yields +Inf regardless of the signs / 0/0 (contiguous kernel); all other elements are correct. got %s", ref.FmtEls(got)), o.Class
	}
	// a result with the right elements is also a well-formed tensor (C13's invariant) - a later operation relies on it
	if rd, ok := res.(*tensor.Dense); ok && rd != nil {
		if msg := atlas.MetaInvariant(rd); msg != "" {
			return core.F("invariant-violated", "meta", "the result has the right elements but %s", msg), o.Class
		}
		if msg := atlas.OrderInvariant(rd); msg != "" {
			return core.F("invariant-violated", "order", "the result has the right elements but %s", msg), o.Class
		}
	}
	return nil, o.Class
}

func elOr(v []interface{}, i int, use bool) string {
	if !use || i >= len(v) {
		return "-"
	}
	return ref.Fmt(v[i])
}

// ewRunCase wraps ewExec in a case with pool reset; builds are inside the body so that a re-execution is fresh.
func ewRunCase(r *core.Run, prop string, c ewCase, post func(*core.Fail) *core.Fail) {
	id := c.id(prop)
	if r.ReplayCase != "" && id != r.ReplayCase {
		return
	}
	r.Case(id, ref.Prod(c.shape) >= 1, func() *core.Fail {
		tensor.VerifResetPools()
		f, cls := ewExec(r, c)
		r.Outcome(c.kind + ":" + cls)
		if strings.HasPrefix(cls, "skip:") {
			r.Dim("skipped", cls)
		}
		if f != nil && post != nil {
			f = post(f)
		}
		return f
	})
}

func supportsArith(op string, d ref.DT) bool {
	if !d.IsNumber() {
		return false
	}
	if d.Class == ref.CComplex && (op == "Mod" || op == "MinBetween" || op == "MaxBetween") {
		return false
	}
	return true
}
