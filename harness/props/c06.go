package props

import (
	"fmt"

	"gorgonia.org/tensor"
	"verifharness/atlas"
	"verifharness/core"
	"verifharness/ref"
)

func init() {
	register(&Def{ID: "C06", Engine: "E1", Run: runC06,
		Rule: "cross product: operation x numeric element type x operand form {TT,TS,ST, scalar given as scalar Tensor on either side} x layout of each tensor operand (L5 x L5 for TT, and the SAME tensor as both operands) x op-matrix shape (thorough: plus lengths 8, 17, 33 and (4,9) on both sides of the widths the vectorised kernels unroll by) x value set {injective, edge (overflow, zero divisors, non-finite), sums/products/quotients that round} x {package function, method}; " +
			"plus the refusal space (every pair of unequal op-matrix shapes, element-type pairs, unsupported element types). one case = one tuple; every coordinate of the result is compared with Go's operator on the operands' elements; non-trivial = at least one element",
		Assume: []string{"operands are built by the layout atlas and read back with At before use (a layout whose read-back differs from the model is skipped and counted; that is C01-C03's subject)",
			"integer Pow is judged where math.Pow of the operands is exactly representable; NaN operands of min/max are not judged; soft vector equality (n)~(n,1)~(1,n) is not part of the mismatch space"}})
}

func softEq(a, b []int) bool { return tensor.Shape(a).Eq(tensor.Shape(b)) }

func runC06(r *core.Run) {
	quick := isQuick(r)
	shapes := OPSH
	if !quick {
		shapes = append(append([][]int{}, OPSH...), OPSHX...)
	}
	r.SetBound("shapes", fmt.Sprint(shapes))
	r.SetBound("layouts", "L5 = C,T,S,SS,M for each tensor operand independently")
	for _, op := range arithOps {
		for _, d := range ref.NUM14 {
			if !supportsArith(op, d) {
				continue
			}
			for _, shape := range shapes {
				if !r.Take() {
					continue
				}
				if r.Expired() {
					return
				}
				for _, vs := range []string{"id", "edge", "edge2", "round", "recip"} {
					if vs == "edge2" && quick {
						continue
					}
					if (vs == "round" || vs == "recip") && !d.IsFloat() {
						continue
					}
					if vs == "recip" && op != "Div" {
						continue
					}
					if vs == "round" && op != "Add" && op != "Sub" && op != "Mul" && op != "Div" {
						continue
					}
					// x op x: the same tensor as both operands
					if vs == "id" || vs == "edge" {
						for _, la := range atlas.L5 {
							for _, api := range []string{"func", "method"} {
								if api == "method" && methTT[op] == nil {
									continue
								}
								ewRunCase(r, "C06", ewCase{kind: "arith", op: op, form: "TT", mode: "safe", api: api, d: d, shape: shape, layA: la, layB: "=a", vs: vs, strict: true}, nil)
							}
						}
					}
					for _, la := range atlas.L5 {
						for _, lb := range atlas.L5 {
							full := vs == "id" || !quick || la == lb || la == "C" || lb == "C"
							if !full {
								continue
							}
							for _, api := range []string{"func", "method"} {
								if api == "method" && methTT[op] == nil {
									continue
								}
								ewRunCase(r, "C06", ewCase{kind: "arith", op: op, form: "TT", mode: "safe", api: api, d: d, shape: shape, layA: la, layB: lb, vs: vs, strict: true}, nil)
							}
						}
						for _, form := range []string{"TS", "ST", "TSt", "StT"} {
							for _, api := range []string{"func", "method"} {
								if api == "method" && (methTS[op] == nil || form == "TSt" || form == "StT") {
									continue
								}
								c := ewCase{kind: "arith", op: op, form: form, mode: "safe", api: api, d: d, shape: shape, layA: la, layB: la, vs: vs, strict: true}
								ewRunCase(r, "C06", c, nil)
								if (form == "TSt" || form == "StT") && vs == "id" && (la == "C" || la == "S") && len(shape) >= 1 {
									// the scalar tensor as a one-element view with a wider storage window
									cw := c
									cw.wide = true
									ewRunCase(r, "C06", cw, nil)
								}
								// special scalars against the edge operands (Pow, Mul, Div, Mod: where kernels shortcut on the scalar)
								if vs == "edge" && api == "func" && (form == "TS" || form == "ST") && (op == "Pow" || op == "Mul" || op == "Div" || op == "Mod") && len(shape) <= 2 {
									for k := range specialScalars(d) {
										c.vs = fmt.Sprintf("edge@%d", k)
										ewRunCase(r, "C06", c, nil)
									}
								}
							}
						}
					}
				}
			}
		}
	}
	c06Refusals(r)
}

func c06Refusals(r *core.Run) {
	mk := func(d ref.DT, shape []int, lay string) *atlas.Built {
		n := ref.Prod(shape)
		vals := make([]interface{}, n)
		for i := range vals {
			vals[i] = d.Code(i + 1)
		}
		b, err := atlas.Build(d, shape, vals, lay)
		if err != nil {
			return nil
		}
		return b
	}
	refuse := func(id string, op string, mkA, mkB func() *atlas.Built, method bool) {
		if r.ReplayCase != "" && id != r.ReplayCase {
			return
		}
		r.Case(id, true, func() *core.Fail {
			tensor.VerifResetPools()
			A, B := mkA(), mkB()
			if A == nil || B == nil {
				return nil
			}
			sa, sb := A.Snapshot(), B.Snapshot()
			var res tensor.Tensor
			o := call(func() (e error) {
				if method {
					var rd *tensor.Dense
					rd, e = methTT[op](A.T, B.T)
					if rd != nil {
						res = rd
					}
					return
				}
				res, e = binFns[op](A.T, B.T)
				return
			})
			r.Op(1)
			r.Outcome("refusal:" + o.Class)
			if ch := A.Changed(sa) + B.Changed(sb); ch != "" {
				return core.F("operand-changed", "x", "refused operation changed an operand: %s", ch)
			}
			switch o.Class {
			case "ok":
				sh := "?"
				if res != nil {
					sh = fmt.Sprint(res.Shape())
				}
				return core.F("accepted-invalid", "ok", "%s of %v %v and %v %v was computed (result shape %s) instead of refused", op, A.DT, A.View.Shape, B.DT, B.View.Shape, sh)
			case "panic":
				return core.F("panic-instead-of-error", "p", "%s of %v %v and %v %v panicked: %v", op, A.DT, A.View.Shape, B.DT, B.View.Shape, o.Panic)
			}
			return nil
		})
	}
	shapes := OPSH
	for _, op := range arithOps {
		for _, d := range []ref.DT{ref.Float64, ref.Int, ref.Uint8} {
			for _, s1 := range shapes {
				for _, s2 := range shapes {
					if len(s1) == 0 || len(s2) == 0 || ref.EqInts(s1, s2) || softEq(s1, s2) {
						continue
					}
					if !r.Take() {
						continue
					}
					for _, lay := range []string{"C", "T"} {
						for _, method := range []bool{false, true} {
							if method && methTT[op] == nil {
								continue
							}
							s1, s2, d, lay := s1, s2, d, lay
							id := fmt.Sprintf("C06|%s|%s|refuse-shape|%s|%s|lay=%s|method=%v", op, d.Name, shapeStr(s1), shapeStr(s2), lay, method)
							refuse(id, op, func() *atlas.Built { return mk(d, s1, lay) }, func() *atlas.Built { return mk(d, s2, "C") }, method)
						}
					}
				}
			}
		}
		// element type mismatches and unsupported element types
		pairs := [][2]ref.DT{{ref.Float64, ref.Int}, {ref.Int, ref.Int8}, {ref.Float32, ref.Float64}, {ref.Uint8, ref.Int8}, {ref.Complex64, ref.Complex128}, {ref.Float64, ref.Bool}, {ref.Int64, ref.Uint64}, {ref.Int, ref.Int64}, {ref.Uint, ref.Uintptr},
			{ref.Bool, ref.Bool}, {ref.String, ref.String}, {ref.Uintptr, ref.Uintptr}, {ref.UnsafePtr, ref.UnsafePtr}}
		if op == "Mod" || op == "MinBetween" || op == "MaxBetween" {
			pairs = append(pairs, [2]ref.DT{ref.Complex64, ref.Complex64}, [2]ref.DT{ref.Complex128, ref.Complex128})
		}
		for _, p := range pairs {
			if p[0].Name == p[1].Name && supported("arith", op, p[0]) {
				continue // the library offers the operation for this element type (e.g. min/max of strings)
			}
			for _, shape := range [][]int{{3}, {2, 3}, {2, 1, 3}} {
				if !r.Take() {
					continue
				}
				for _, lay := range []string{"C", "S"} {
					for _, method := range []bool{false, true} {
						if method && methTT[op] == nil {
							continue
						}
						p, shape, lay := p, shape, lay
						id := fmt.Sprintf("C06|%s|refuse-dtype|%s|%s|%s|lay=%s|method=%v", op, p[0].Name, p[1].Name, shapeStr(shape), lay, method)
						refuse(id, op, func() *atlas.Built { return mk(p[0], shape, lay) }, func() *atlas.Built { return mk(p[1], shape, "C") }, method)
					}
				}
			}
		}
	}
}
