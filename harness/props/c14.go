package props

import (
	"bytes"
	"encoding/gob"
	"fmt"

	"gorgonia.org/tensor"
	"verifharness/atlas"
	"verifharness/core"
	"verifharness/ref"
)

func init() {
	register(&Def{ID: "C14", Engine: "E1", Run: runC14,
		Rule: "cross product: format {gob (direct and through encoding/gob), npy, csv, protobuf, flatbuffers} x every element type x shapes of rank 0-4 (scalars, length-one axes) x layouts {C, F, Fc, T, S, SS, ST, M} x masks {none, every mask over <= 4 elements, two patterns on larger} x value sets {injective, edge (extremes, non-finite, -0, empty/unicode strings, strings with separators, quotes, newlines, tabs, outer blanks and a leading comment character)}; " +
			"oracle: decode(encode(t)) has the same element type, shape and logical elements (and mask where the format carries one and the tensor is contiguous) and every coordinate of it is readable, it satisfies the metadata invariant (order flag consistent with strides) and - used as a starting state - flattens (Clone+Reshape) and copies (Copy) to the same elements - or encode or decode refuses; never different data. non-trivial = >= 2 elements",
		Assume: []string{"a refusal (error or panic) by encode or decode is accepted for any input", "CSV is judged for rank <= 2 numeric tensors; masked elements of formats that write a fill value are not compared"}})
}

type ioFmt struct {
	name string
	enc  func(t *tensor.Dense) ([]byte, error)
	dec  func(p []byte, d ref.DT) (*tensor.Dense, error)
	mask bool
}

var ioFmts = []ioFmt{
	{"gob", func(t *tensor.Dense) ([]byte, error) { return t.GobEncode() }, func(p []byte, d ref.DT) (*tensor.Dense, error) {
		t := new(tensor.Dense)
		return t, t.GobDecode(p)
	}, true},
	{"gobstream", func(t *tensor.Dense) ([]byte, error) {
		var buf bytes.Buffer
		err := gob.NewEncoder(&buf).Encode(t)
		return buf.Bytes(), err
	}, func(p []byte, d ref.DT) (*tensor.Dense, error) {
		t := new(tensor.Dense)
		return t, gob.NewDecoder(bytes.NewReader(p)).Decode(t)
	}, true},
	{"npy", func(t *tensor.Dense) ([]byte, error) {
		var buf bytes.Buffer
		err := t.WriteNpy(&buf)
		return buf.Bytes(), err
	}, func(p []byte, d ref.DT) (*tensor.Dense, error) {
		t := new(tensor.Dense)
		return t, t.ReadNpy(bytes.NewReader(p))
	}, false},
	{"csv", func(t *tensor.Dense) ([]byte, error) {
		var buf bytes.Buffer
		err := t.WriteCSV(&buf)
		return buf.Bytes(), err
	}, func(p []byte, d ref.DT) (*tensor.Dense, error) {
		t := new(tensor.Dense)
		return t, t.ReadCSV(bytes.NewReader(p), tensor.As(d.D))
	}, false},
	{"pb", func(t *tensor.Dense) ([]byte, error) { return t.PBEncode() }, func(p []byte, d ref.DT) (*tensor.Dense, error) {
		t := new(tensor.Dense)
		return t, t.PBDecode(p)
	}, false},
	{"fb", func(t *tensor.Dense) ([]byte, error) { return t.FBEncode() }, func(p []byte, d ref.DT) (*tensor.Dense, error) {
		t := new(tensor.Dense)
		return t, t.FBDecode(p)
	}, false},
}

// c14Alive: HISTORIES of encodings - the bytes an encoder returned stay what they were while further tensors are encoded
// and decoded (an encoder that hands out a buffer it keeps using would rewrite them): encode A, encode B (same type and
// shape, other values), encode C (another shape), decode the three in every order, and decode A again after the source
// tensors were overwritten.
func c14Alive(r *core.Run) {
	r.SetBound("encoding_histories", "every format x {float64, int32, string, bool} x shapes {(3),(2,3)}: encode A, B (same shape), C (other shape); decode in orders ABC, CBA, BAC; A once more after overwriting the sources")
	for _, f := range ioFmts {
		for _, d := range []ref.DT{ref.Float64, ref.Int32, ref.String, ref.Bool} {
			for _, shape := range [][]int{{3}, {2, 3}} {
				if !r.Take() {
					continue
				}
				f, d, shape := f, d, shape
				if f.name == "csv" && len(shape) != 2 {
					continue
				}
				id := fmt.Sprintf(propPfx+"C14|alive|%s|%s|%s", f.name, d.Name, shapeStr(shape))
				if r.ReplayCase != "" && id != r.ReplayCase {
					continue
				}
				r.Case(id, true, func() *core.Fail {
					if !ioSupported(f, d) {
						return nil
					}
					tensor.VerifResetPools()
					n := ref.Prod(shape)
					mkv := func(off, n int) []interface{} {
						v := make([]interface{}, n)
						for i := range v {
							v[i] = d.Code(i + off)
						}
						return v
					}
					oshape := []int{n + 1}
					if f.name == "csv" {
						oshape = []int{1, n + 1}
					}
					vals := [][]interface{}{mkv(1, n), mkv(1+n, n), mkv(2, n+1)}
					shapes := [][]int{shape, shape, oshape}
					srcs := make([]*tensor.Dense, 3)
					enc := make([][]byte, 3)
					for i := range srcs {
						srcs[i] = mkContig(d, shapes[i], vals[i])
						var p []byte
						if o := call(func() (e error) { p, e = f.enc(srcs[i]); return }); o.Class != "ok" {
							return nil // refusals are judged by the round-trip cases
						}
						enc[i] = p
						r.Op(1)
					}
					dec := func(i int, when string) *core.Fail {
						var t2 *tensor.Dense
						if o := call(func() (e error) { t2, e = f.dec(enc[i], d); return }); o.Class != "ok" {
							if d.Class == ref.CBool && (f.name == "csv") {
								return nil
							}
							return core.F("unreadable", "alive", "%s: the %s encoding (#%d of 3 kept alive) no longer decodes %s: %s", f.name, d.Name, i, when, o)
						}
						r.Op(1)
						got, err := atlas.Logical(t2)
						if err != nil || len(got) != len(vals[i]) {
							return core.F("unreadable", "alive", "%s: encoding #%d decoded %s cannot be read: %v", f.name, i, when, err)
						}
						for k := range got {
							if !ref.Same(got[k], vals[i][k]) {
								return core.F("wrong-value", fmt.Sprintf("alive%d", i), "%s %s: encoding #%d of three kept alive decodes %s to %s, it was made from %s", f.name, d.Name, i, when, ref.FmtEls(got), ref.FmtEls(vals[i]))
							}
						}
						return nil
					}
					for _, order := range [][]int{{0, 1, 2}, {2, 1, 0}, {1, 0, 2}} {
						for _, i := range order {
							if fl := dec(i, fmt.Sprintf("in order %v", order)); fl != nil {
								return fl
							}
						}
					}
					for i := range srcs {
						call(func() error { return srcs[i].Memset(d.Code(9)) })
					}
					return dec(0, "after the source tensors were overwritten")
				})
			}
		}
	}
}

// decodeInto decodes p with format f INTO the given receiver (the table's dec functions use a fresh one).
func decodeInto(f ioFmt, recv *tensor.Dense, p []byte, d ref.DT) error {
	switch f.name {
	case "gob":
		return recv.GobDecode(p)
	case "gobstream":
		return gob.NewDecoder(bytes.NewReader(p)).Decode(recv)
	case "npy":
		return recv.ReadNpy(bytes.NewReader(p))
	case "csv":
		return recv.ReadCSV(bytes.NewReader(p), tensor.As(d.D))
	case "pb":
		return recv.PBDecode(p)
	case "fb":
		return recv.FBDecode(p)
	}
	panic(f.name)
}

// c14Receivers: decoding into a receiver that was USED before - masked, column-major, lazily transposed, a view of
// another tensor, of another shape - yields the same tensor as decoding into a fresh one: same shape, elements and mask,
// consistent metadata, nothing pending (UT changes nothing), and the tensor the receiver was a view of is untouched.
func c14Receivers(r *core.Run) {
	kinds := []string{"masked", "colmajor", "transposed", "view", "othershape", "softmasked"}
	r.SetBound("decode_receivers", fmt.Sprintf("every format x {float64, int32} x shapes {(6),(2,3),(3,2)} x source {plain, masked} x receiver used before as %v", kinds))
	for _, f := range ioFmts {
		for _, d := range []ref.DT{ref.Float64, ref.Int32} {
			for _, shape := range [][]int{{6}, {2, 3}, {3, 2}} {
				for _, smask := range []bool{false, true} {
					for _, kind := range kinds {
						if !r.Take() {
							continue
						}
						f, d, shape, smask, kind := f, d, shape, smask, kind
						if f.name == "csv" && len(shape) != 2 {
							continue
						}
						id := fmt.Sprintf(propPfx+"C14|receiver|%s|%s|%s|srcmask=%v|%s", f.name, d.Name, shapeStr(shape), smask, kind)
						if r.ReplayCase != "" && id != r.ReplayCase {
							continue
						}
						r.Case(id, true, func() *core.Fail {
							if !ioSupported(f, d) {
								return nil
							}
							tensor.VerifResetPools()
							n := ref.Prod(shape)
							vals := make([]interface{}, n)
							back := d.MakeSlice(n)
							for i := range vals {
								vals[i] = d.Code(i + 1)
								ref.SliceSet(back, i, vals[i])
							}
							var src *tensor.Dense
							smk := []bool{false, true, false, false, true, false}
							if smask {
								src = tensor.New(tensor.WithShape(shape...), tensor.WithBacking(back, append([]bool{}, smk...)))
							} else {
								src = tensor.New(tensor.WithShape(shape...), tensor.WithBacking(back))
							}
							var p []byte
							if o := call(func() (e error) { p, e = f.enc(src); return }); o.Class != "ok" {
								return nil
							}
							var fresh *tensor.Dense
							if o := call(func() (e error) { fresh, e = f.dec(p, d); return }); o.Class != "ok" {
								return nil // judged by the round-trip cases
							}
							fv, err := atlas.Logical(fresh)
							if err != nil {
								return nil
							}
							// the used receiver
							rb := d.MakeSlice(n)
							for i := 0; i < n; i++ {
								ref.SliceSet(rb, i, d.Code(90+i))
							}
							var recv, parent *tensor.Dense
							var parentBack interface{}
							switch kind {
							case "masked", "softmasked":
								recv = tensor.New(tensor.WithShape(shape...), tensor.WithBacking(rb, []bool{true, false, true, true, false, true}))
								if kind == "softmasked" {
									recv.SoftenMask()
								}
							case "colmajor":
								if len(shape) < 2 {
									return nil
								}
								recv = tensor.New(tensor.WithShape(shape...), tensor.WithBacking(rb), tensor.AsFortran(nil))
							case "transposed":
								if len(shape) < 2 {
									return nil
								}
								recv = tensor.New(tensor.WithShape(rev(shape)...), tensor.WithBacking(rb))
								recv.T()
							case "view":
								parentBack = d.MakeSlice(2 * n)
								for i := 0; i < 2*n; i++ {
									ref.SliceSet(parentBack, i, d.Code(50+i))
								}
								parent = tensor.New(tensor.WithShape(2*n), tensor.WithBacking(parentBack))
								v, err := parent.Slice(tensor.S(1, 1+n))
								if err != nil {
									return nil
								}
								recv = v.(*tensor.Dense)
							case "othershape":
								recv = tensor.New(tensor.WithShape(2, 2), tensor.WithBacking(d.MakeSlice(4)))
							}
							var derr error
							if o := call(func() error { derr = decodeInto(f, recv, p, d); return nil }); o.Class != "ok" || derr != nil {
								return core.F("unreadable", "recv", "%s: decoding into a receiver used before (%s) fails although a fresh receiver decodes: %v %s", f.name, kind, derr, o)
							}
							r.Op(1)
							what := fmt.Sprintf("%s decoded into a receiver used before (%s), source %s %v masked=%v", f.name, kind, d.Name, shape, smask)
							if !ref.EqInts(recv.Shape(), fresh.Shape()) {
								return core.F("wrong-shape", "recv", "%s: shape %v, a fresh receiver gives %v", what, recv.Shape(), fresh.Shape())
							}
							got, err := atlas.Logical(recv)
							if err != nil {
								return core.F("unreadable", "recv-inv", "%s: %v", what, err)
							}
							for i := range fv {
								if i >= len(got) || !ref.Same(got[i], fv[i]) {
									return core.F("wrong-value", fmt.Sprintf("recv%d", i), "%s: reads %s, a fresh receiver gives %s", what, ref.FmtEls(got), ref.FmtEls(fv))
								}
							}
							if recv.IsMasked() != fresh.IsMasked() || (recv.IsMasked() && bitsOf(recv.Mask()) != bitsOf(fresh.Mask())) {
								return core.F("wrong-mask", "recv", "%s: mask %v %s, a fresh receiver gives %v %s", what, recv.IsMasked(), bitsOf(recv.Mask()), fresh.IsMasked(), bitsOf(fresh.Mask()))
							}
							if recv.DataOrder().IsColMajor() != fresh.DataOrder().IsColMajor() {
								return core.F("wrong-shape", "recv-order", "%s: data order %v, a fresh receiver gives %v", what, recv.DataOrder(), fresh.DataOrder())
							}
							// nothing of the receiver's past is pending
							call(func() error { recv.UT(); return nil })
							if !ref.EqInts(recv.Shape(), fresh.Shape()) {
								return core.F("wrong-shape", "recv-ut", "%s: a following UT changes the shape to %v: the receiver's old pending transpose survived the decoding", what, recv.Shape())
							}
							if parent != nil {
								for i := 0; i < 2*n; i++ {
									if !ref.Same(ref.SliceGet(parentBack, i), d.Code(50+i)) {
										return core.F("operand-changed", "recv-parent", "%s: the tensor the receiver was a view of changed at element %d", what, i)
									}
								}
							}
							return nil
						})
					}
				}
			}
		}
	}
}

func c14Vals(d ref.DT, n int, vs string) []interface{} {
	v := make([]interface{}, n)
	e := edgeVals(d)
	for i := range v {
		if vs == "edge" {
			v[i] = e[(i+len(e)-1)%len(e)] // rotated: the last edge value (the hardest one for text formats) comes first
		} else {
			v[i] = d.Code(i + 1)
		}
	}
	return v
}

func runC14(r *core.Run) {
	quick := isQuick(r)
	shapes := [][]int{{}, {1}, {3}, {1, 3}, {3, 1}, {1, 1}, {2, 3}, {3, 2}, {2, 1, 3}, {2, 3, 2}, {2, 2, 2, 2}, {1, 2, 1, 2}}
	if !quick {
		shapes = append(shapes, []int{4}, []int{4, 3}, []int{3, 3, 3}, []int{2, 3, 2, 2}, []int{1, 1, 1}, []int{5, 1})
	}
	lays := []string{"C", "F", "Fc", "T", "S", "SS", "ST", "M"}
	r.SetBound("shapes", fmt.Sprint(shapes))
	r.SetBound("layouts", fmt.Sprint(lays))
	for _, f := range ioFmts {
		for _, d := range ref.ALL18 {
			for _, shape := range shapes {
				if !r.Take() {
					continue
				}
				if r.Expired() {
					return
				}
				n := ref.Prod(shape)
				for _, lay := range lays {
					for _, vs := range []string{"id", "edge"} {
						// masks: none; on contiguous tensors every mask for n<=4, two patterns otherwise
						masks := []int{-1}
						if (lay == "C" || lay == "T") && n >= 1 && vs == "id" {
							if n <= 4 {
								for m := 0; m < 1<<uint(n); m++ {
									masks = append(masks, m)
								}
							} else {
								masks = append(masks, 0x5, 0x1a)
							}
						}
						for _, mb := range masks {
							c14Case(r, f, d, shape, lay, vs, mb)
							if lay == "C" && mb >= 0 && len(shape) >= 1 {
								c14Case(r, f, d, shape, "Srow", vs, mb) // the same masked contents as a row view with an offset mask window
							}
						}
					}
				}
			}
		}
	}
	c14Alive(r)
	c14Receivers(r)
}

var ioSupport = map[string]bool{}

// ioSupported: does the format round-trip this element type at all (plain contiguous vector)? Formats are judged
// only over "the element types each supports".
func ioSupported(f ioFmt, d ref.DT) bool {
	k := f.name + "|" + d.Name
	if v, ok := ioSupport[k]; ok {
		return v
	}
	tensor.VerifResetPools()
	pshape := []int{3}
	if f.name == "csv" {
		pshape = []int{1, 3} // WriteCSV refuses 1-d tensors
	}
	vals := c14Vals(d, 3, "id")
	t := mkContig(d, pshape, vals)
	ok := false
	o := call(func() error {
		_, e := f.enc(t)
		return e
	})
	// unsupported = the format REFUSES TO WRITE the element type on the plainest input (encode reports an error or
	// panics). A type that is written is supported: if the bytes then cannot be decoded, or decode to other data or another
	// element type, that is exactly what the property forbids ("never written as different data or as a tensor that cannot
	// be read back"), and the cases below report it
	_ = ok
	ioSupport[k] = o.Class == "ok"
	return ioSupport[k]
}

func c14Case(r *core.Run, f ioFmt, d ref.DT, shape []int, lay, vs string, mbits int) {
	id := fmt.Sprintf(propPfx+"C14|%s|%s|%s|%s|%s|mask=%d", f.name, d.Name, shapeStr(shape), lay, vs, mbits)
	if r.ReplayCase != "" && id != r.ReplayCase {
		return
	}
	n := ref.Prod(shape)
	r.Case(id, n >= 2, func() *core.Fail {
		if !ioSupported(f, d) {
			r.Outcome(f.name + ":type-unsupported")
			return nil
		}
		tensor.VerifResetPools()
		vals := c14Vals(d, n, vs)
		var t *tensor.Dense
		var mask []bool
		if mbits >= 0 {
			back := d.MakeSlice(n)
			mask = make([]bool, n)
			for i := 0; i < n; i++ {
				ref.SliceSet(back, i, vals[i])
				mask[i] = mbits&(1<<uint(i%16)) != 0
			}
			if len(shape) == 0 {
				return nil
			}
			switch lay {
			case "T": // a masked tensor with a pending lazy transpose: data and mask are stored in the order of the reversed shape
				if len(shape) < 2 {
					return nil
				}
				rs := rev(shape)
				cells := ref.RootC(rs).Permute(ref.Reversal(len(shape))).Cell
				sback, smask := d.MakeSlice(n), make([]bool, n)
				for i, c := range cells { // logical element i lives in storage cell c
					ref.SliceSet(sback, c, vals[i])
					smask[c] = mask[i]
				}
				t = tensor.New(tensor.WithShape(rs...), tensor.WithBacking(sback, smask))
				if err := t.T(); err != nil {
					return nil
				}
			case "Srow": // rows 1.. of a masked tensor with one more leading row: a contiguous view with an offset mask window
				rs := ref.CopyInts(shape)
				rs[0]++
				rowLen := n / shape[0]
				sback, smask := d.MakeSlice(n+rowLen), make([]bool, n+rowLen)
				for i := 0; i < rowLen; i++ {
					ref.SliceSet(sback, i, d.Code(77))
					smask[i] = i%2 == 0
				}
				for i := 0; i < n; i++ {
					ref.SliceSet(sback, rowLen+i, vals[i])
					smask[rowLen+i] = mask[i]
				}
				root := tensor.New(tensor.WithShape(rs...), tensor.WithBacking(sback, smask))
				v, err := root.Slice(tensor.S(1, rs[0]))
				if err != nil {
					return nil
				}
				t = v.(*tensor.Dense)
				if !ref.EqInts(t.Shape(), shape) {
					return nil
				}
			default:
				t = tensor.New(tensor.WithShape(shape...), tensor.WithBacking(back, mask))
			}
		} else {
			b := buildVerified(d, shape, vals, lay)
			if b == nil {
				r.Dim("skipped", lay)
				return nil
			}
			t = b.T
		}
		r.State(d.Name + "|" + atlas.StateKey(t, 0))
		fp := atlas.Fingerprint(t)
		var p []byte
		o := call(func() (e error) { p, e = f.enc(t); return })
		r.Op(1)
		if atlas.Fingerprint(t) != fp {
			return core.F("operand-changed", "enc", "%s encoding changed the tensor", f.name)
		}
		if o.Class == "panic" {
			// a refusal is an error value: a panic half way through writing is not one
			return core.F("encode-panic"+c14Tag(f.name, d, shape, lay, t, "encode-panic"), "enc", "%s: encoding %s %v layout %s mask %d panics: %s", f.name, d.Name, shape, lay, mbits, o)
		}
		if o.Class != "ok" {
			r.Outcome(f.name + ":encode-refused")
			return nil
		}
		var t2 *tensor.Dense
		o = call(func() (e error) { t2, e = f.dec(p, d); return })
		r.Op(1)
		if o.Class != "ok" {
			r.Outcome(f.name + ":decode-refused")
			// "never ... a tensor that cannot be read back": a successful encode whose bytes cannot be decoded
			tag := c14Tag(f.name, d, shape, lay, t, "unreadable")
			return core.F("unreadable"+tag, "dec", "%s: encode succeeded but decode fails: %s (shape %v layout %s)", f.name, o, shape, lay)
		}
		r.Outcome(f.name + ":ok")
		what := fmt.Sprintf("%s round trip of %s %v layout %s", f.name, d.Name, shape, lay)
		if f.name == "csv" && (len(shape) > 2 || len(shape) == 0) {
			return nil
		}
		fail := func(kind, dg, format string, a ...interface{}) *core.Fail {
			return core.F(kind+c14Tag(f.name, d, shape, lay, t, kind), dg, format, a...)
		}
		if t2.Dtype() != d.D {
			return fail("wrong-dtype", "dt", "%s: dtype %v, expected %v", what, t2.Dtype(), d.D)
		}
		if !ref.EqInts(t2.Shape(), shape) {
			if !(f.name == "csv" && ref.Prod(t2.Shape()) == n) {
				return fail("wrong-shape", "sh", "%s: shape %v, expected %v", what, t2.Shape(), shape)
			}
		}
		var got []interface{}
		var err error
		if o := call(func() error { got, err = atlas.Logical(t2); return err }); o.Class != "ok" {
			return fail("unreadable", "rd", "%s: decoded tensor cannot be read: %s (decoded shape %v strides %v)", what, o, t2.Shape(), t2.Strides())
		}
		if len(got) != n {
			return fail("wrong-shape", "n", "%s: %d elements expected %d", what, len(got), n)
		}
		for i := range got {
			if mask != nil && mask[i] && !f.mask {
				continue
			}
			if !ref.Same(got[i], vals[i]) {
				// (WriteCSV prints with %v, the shortest decimal that round-trips: the text format is exact too)
				return fail("wrong-value", fmt.Sprintf("el%d", i), "%s: element %d is %s, expected %s; got %s expected %s", what, i, ref.Fmt(got[i]), ref.Fmt(vals[i]), ref.FmtEls(got), ref.FmtEls(vals))
			}
		}
		if mask != nil && f.mask {
			m2 := t2.Mask()
			if t2.IsMasked() || mbits != 0 {
				if len(m2) != n {
					return fail("wrong-mask", "ml", "%s: mask of length %d, expected %d", what, len(m2), n)
				}
				for i := range mask {
					if m2[i] != mask[i] {
						return fail("wrong-mask", fmt.Sprintf("m%d", i), "%s: mask bit %d is %v expected %v", what, i, m2[i], mask[i])
					}
				}
			}
		}
		if msg := metaInvariant(t2); msg != "" {
			return fail("unreadable", "inv", "%s: decoded tensor violates the metadata invariant: %s", what, msg)
		}
		if msg := orderInvariant(t2); msg != "" {
			return fail("unreadable", "ord", "%s: decoded tensor violates the metadata invariant: %s", what, msg)
		}
		// the decoded tensor as a starting state: whole-tensor readers that pick their traversal from the flags must see
		// the same elements (row-major results only: column-major traversal is C16's subject)
		if n >= 2 && len(shape) >= 1 && !t2.DataOrder().IsColMajor() {
			var flat []interface{}
			o := call(func() error {
				c := t2.Clone().(*tensor.Dense)
				if err := c.Reshape(n); err != nil {
					return err
				}
				flat, err = atlas.Logical(c)
				return err
			})
			r.Op(1)
			if o.Class == "ok" {
				for i := range flat {
					if !(mask != nil && mask[i] && !f.mask) && !ref.Same(flat[i], vals[i]) {
						return fail("wrong-value", fmt.Sprintf("flat%d", i), "%s: flattening a clone of the decoded tensor reads %s, expected %s", what, ref.FmtEls(flat), ref.FmtEls(vals))
					}
				}
			}
			dst := tensor.New(tensor.WithShape(t2.Shape().Clone()...), tensor.Of(d.D))
			o = call(func() error { return tensor.Copy(dst, t2) })
			r.Op(1)
			if o.Class == "ok" {
				cp, err := atlas.Logical(dst)
				if err == nil {
					for i := range cp {
						if !(mask != nil && mask[i] && !f.mask) && !ref.Same(cp[i], vals[i]) {
							return fail("wrong-value", fmt.Sprintf("copy%d", i), "%s: Copy of the decoded tensor into a fresh tensor reads %s, expected %s", what, ref.FmtEls(cp), ref.FmtEls(vals))
						}
					}
				}
			}
		}
		return nil
	})
}

// c14Tag recognises the preconditions of the recorded C14 findings.
func c14Tag(fmtName string, d ref.DT, shape []int, lay string, t *tensor.Dense, kind string) string {
	// precondition of F-C14-csv-empty-string-row: a single-column string tensor containing "" - the row is written as
	// an empty line, which encoding/csv skips when reading
	if fmtName == "csv" && d.Name == "string" && len(shape) == 2 && shape[1] == 1 && (kind == "wrong-shape" || kind == "unreadable") {
		if vals, err := atlas.Logical(t); err == nil {
			for _, v := range vals {
				if v == "" {
					return "[KF:csv-empty-string-row]"
				}
			}
		}
	}
	// precondition of F-C14-csv-types-not-read-back: WriteCSV prints every element type with %v, ReadCSV (convFromStrs)
	// parses only the integer, float and string types
	if fmtName == "csv" && kind == "unreadable" {
		switch d.Name {
		case "bool", "complex64", "complex128", "uintptr", "unsafe.Pointer":
			return "[KF:csv-types-not-read-back]"
		}
	}
	// precondition of F-C14-npy-int64-reads-as-int: on a 64-bit platform the descriptors i8/u8 are read back as the
	// platform-sized Int/Uint
	if fmtName == "npy" && kind == "wrong-dtype" && (d.Name == "int64" || d.Name == "uint64") {
		return "[KF:npy-int64-reads-as-int]"
	}
	return ""
}

var _ = fmt.Sprint
