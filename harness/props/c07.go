package props

import (
	"fmt"
	"strings"

	"verifharness/atlas"
	"verifharness/core"
	"verifharness/ref"
)

func init() {
	register(&Def{ID: "C07", Engine: "E1", Run: runC07,
		Rule: "cross product: every arithmetic (8), comparison (6) and unary (14 + Clamp) operation x option mode {safe, unsafe, reuse (fresh contiguous / sliced view / step-sliced view / == operand a / == operand b / other shape same size / wrong size), incr (contiguous / sliced view / == operand a / == operand b)} x {two operands, the same tensor as both operands} x operand form x operand layouts (L5 each) x element type representatives x op-matrix shapes; " +
			"oracle: values = safe-mode model values (incr: destination + result), returned tensor identity, every non-destination tensor unchanged (root + metadata), destination's parent untouched outside the destination's image. non-trivial = >=1 element",
		Assume: []string{"as C06; a reuse/incr destination that the library refuses without touching anything is reported under its own kind (unexpected-refusal[dest]) and triaged separately from wrong values"}})
}

func c07Modes(kind string, form string) []string {
	m := []string{"safe", "unsafe", "reuse:C", "reuse:S", "reuse:SS", "reuse:T", "reuse=a", "reuse:reshape", "reuse:wrongsize", "reuse:wrongtype"}
	if form == "TT" {
		m = append(m, "reuse=b")
	}
	if form == "ST" {
		m[6] = "reuse=b" // the only tensor operand of scalar-tensor forms is b
	}
	if kind == "arith" || kind == "unary" {
		m = append(m, "incr:C", "incr:S")
	}
	if kind == "arith" {
		switch form {
		case "TT":
			m = append(m, "incr=a", "incr=b")
		case "ST":
			m = append(m, "incr=b")
		default:
			m = append(m, "incr=a")
		}
	}
	if kind == "cmp" {
		out := []string{}
		for _, x := range m {
			if x != "reuse=a" && x != "reuse=b" {
				// a comparison without AsSameType needs a Bool destination: an operand cannot be one
				out = append(out, x)
			}
			out = append(out, "same+"+x)
		}
		return out
	}
	return m
}

func runC07(r *core.Run) {
	quick := isQuick(r)
	dts := []ref.DT{ref.Int, ref.Uint8, ref.Int64, ref.Float32, ref.Float64, ref.Complex128}
	shapes := [][]int{{1, 1}, {3}, {3, 1}, {2, 3}, {2, 1, 3}, {2, 2, 2, 2}}
	lays := atlas.L5
	if !quick {
		dts = ref.NUM14
		shapes = append(OPSH[1:], OPSHX...)
	}
	r.SetBound("dtypes", fmt.Sprint(dts))
	r.SetBound("shapes", fmt.Sprint(shapes))
	post := func(f *core.Fail) *core.Fail { return f }
	type opk struct{ kind, op string }
	var ops []opk
	for _, o := range arithOps {
		ops = append(ops, opk{"arith", o})
	}
	for _, o := range cmpOps {
		ops = append(ops, opk{"cmp", o})
	}
	for _, o := range unaryOps {
		ops = append(ops, opk{"unary", o})
	}
	ops = append(ops, opk{"clamp", "Clamp"})
	// Bool operands: the one element type for which a comparison WITHOUT AsSameType can have an operand as its reuse
	// tensor (the result is Bool, and so are they)
	for _, op := range []string{"ElEq", "ElNe"} {
		for _, shape := range [][]int{{3}, {2, 3}, {2, 1, 3}} {
			if !r.Take() {
				continue
			}
			for _, form := range []string{"TT", "TS", "ST"} {
				modes := []string{"safe", "reuse:C", "reuse:T", "reuse=a"}
				if form == "TT" {
					modes = append(modes, "reuse=b")
				}
				if form == "ST" {
					modes[3] = "reuse=b"
				}
				for _, mode := range modes {
					for _, la := range []string{"C", "T", "S"} {
						for _, lb := range []string{"C", "T"} {
							if form != "TT" && lb != la {
								continue
							}
							for _, vs := range []string{"id", "eq"} {
								c := ewCase{kind: "cmp", op: op, form: form, mode: mode, api: "func", d: ref.Bool, shape: shape, layA: la, layB: lb, vs: vs}
								ewRunCase(r, "C07", c, post)
							}
						}
					}
				}
			}
		}
	}
	for _, ok := range ops {
		for _, d := range dts {
			if ok.kind == "arith" && !supportsArith(ok.op, d) {
				continue
			}
			if ok.kind == "cmp" && d.Class == ref.CComplex && ok.op != "ElEq" && ok.op != "ElNe" {
				continue
			}
			for _, shape := range shapes {
				if !r.Take() {
					continue
				}
				if r.Expired() {
					return
				}
				forms := []string{"TT", "TS", "ST"}
				if ref.Prod(shape) <= 3 {
					// the scalar handed over as a scalar TENSOR (an operand like any other: it must come back unchanged)
					forms = append(forms, "TSt", "StT")
				}
				if ok.kind == "unary" || ok.kind == "clamp" {
					forms = []string{"U"}
				}
				for _, form := range forms {
					if ok.op == "ElNe" && (form == "TSt" || form == "StT") {
						// the package-level ElNe has no dispatch for a scalar-shaped tensor operand (the other five comparisons
						// have): it refuses with a shape error. The statements speak of tensor and scalar operands, not of this
						// third form, so its absence for one operation is not judged
						continue
					}
					for _, mode := range c07Modes(ok.kind, form) {
						if strings.HasPrefix(mode, "incr=") && (ok.op == "MinBetween" || ok.op == "MaxBetween") {
							continue // their increment handling is a recorded finding as it is (F-C07-minmax-incr-overwrites)
						}
						for _, la := range lays {
							lbs := lays
							if form != "TT" {
								lbs = []string{la}
							} else if quick && la != "C" {
								lbs = []string{"C", la}
							}
							if form == "TT" && (ok.kind == "arith" || ok.kind == "cmp") {
								lbs = append(append([]string{}, lbs...), "=a") // x op x: the same tensor as both operands
							}
							for _, lb := range lbs {
								if strings.HasPrefix(strings.TrimPrefix(mode, "same+"), "reuse=") && false {
									continue
								}
								for _, api := range []string{"func", "method"} {
									if api == "method" && (ok.kind == "unary" || ok.kind == "clamp" || methTT[ok.op] == nil || form == "TSt" || form == "StT") {
										continue
									}
									if api == "method" && quick && mode != "safe" && mode != "unsafe" && mode != "reuse:S" && mode != "incr:S" {
										continue
									}
									c := ewCase{kind: ok.kind, op: ok.op, form: form, mode: mode, api: api, d: d, shape: shape, layA: la, layB: lb, vs: "id"}
									ewRunCase(r, "C07", c, post)
									// magnitudes at which the order of accumulation shows: the value delivered into a reuse or increment
									// destination is the safe-mode value, computed and added the way Go computes it
									if ok.kind == "arith" && (ok.op == "Add" || ok.op == "Sub") && d.IsFloat() && api == "func" && form == "TT" {
										c.vs = "round"
										ewRunCase(r, "C07", c, post)
										c.vs = "id"
									}
									// integer division with zero divisors among the elements: a refusal is required in every mode; what
									// happens to the destination of a call that is NOT refused is part of the recorded finding's model
									if ok.op == "Div" && d.IsInteger() && api == "func" && (strings.HasPrefix(mode, "incr") || strings.HasPrefix(mode, "reuse:")) {
										c.vs = "edge"
										ewRunCase(r, "C07", c, post)
										c.vs = "zmid"
										ewRunCase(r, "C07", c, post)
									}
								}
							}
						}
					}
				}
			}
		}
	}
}
