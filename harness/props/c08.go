package props

import (
	"fmt"
	"math"
	"reflect"
	"strings"

	"gorgonia.org/tensor"
	"verifharness/atlas"
	"verifharness/core"
	"verifharness/ref"
)

func init() {
	register(&Def{ID: "C08", Engine: "E1", Run: runC08,
		Rule: "cross product: {Sum,Max,Min} x {function, method} x ordered numeric element types (+complex for Sum) x shapes of rank 1-4 x EVERY non-empty subset of axes (ascending, plus one non-ascending order; for contiguous operands of rank >= 3 every order of every subset; axis lists with an axis given twice, which denote the set of their axes) x operand layout L5 x value sets {injective, ties and negatives, overflow, infinities, sums that round, signed zeros}; " +
			"{Argmax,Argmin} x every axis and AllAxes; generic Reduce(fn) with add/mul/max x every axis. Each result element is compared with the fold of the model array; the operand's storage and metadata and the caller's axes slice must be unchanged. non-trivial = >=2 elements",
		Assume: []string{"floating-point sums use integer-valued elements so that every summation order gives the same exact result", "NaN is excluded from max/min/arg value sets; an unsupported layout may refuse (error or panic) but never fold wrongly"}})
}

func subsets(n int) [][]int {
	var out [][]int
	for m := 1; m < 1<<uint(n); m++ {
		var s []int
		for i := 0; i < n; i++ {
			if m&(1<<uint(i)) != 0 {
				s = append(s, i)
			}
		}
		out = append(out, s)
	}
	return out
}

// reduceModel folds arr along axes (any order) with f; returns shape and elements.
func reduceModel(arr ref.Arr, axes []int, f func(a, b interface{}) interface{}) ref.Arr {
	red := map[int]bool{}
	for _, a := range axes {
		red[a] = true
	}
	var oshape []int
	for i, d := range arr.Shape {
		if !red[i] {
			oshape = append(oshape, d)
		}
	}
	if oshape == nil {
		oshape = []int{}
	}
	out := ref.Arr{DT: arr.DT, Shape: oshape, El: make([]interface{}, ref.Prod(oshape))}
	oc := make([]int, len(oshape))
	ref.ForCoords(arr.Shape, func(c []int) {
		j := 0
		for i := range c {
			if !red[i] {
				oc[j] = c[i]
				j++
			}
		}
		k := ref.RowRank(oshape, oc)
		v := arr.At(c)
		if out.El[k] == nil {
			out.El[k] = v
		} else {
			out.El[k] = f(out.El[k], v)
		}
	})
	return out
}

func c08Vals(d ref.DT, n int, vs string) []interface{} {
	v := make([]interface{}, n)
	for i := range v {
		switch vs {
		case "id":
			v[i] = d.Code((i*7)%11 + 1)
		case "ties": // ties and negatives; the extreme occurs several times
			v[i] = d.Code([]int{2, -3, 5, 5, -3, 0, 5, -3, 1}[i%9])
		case "inf": // float only: the infinities occur several times, first at the very first position
			e := []float64{math.Inf(1), 1, math.Inf(1), math.Inf(-1), 2, math.Inf(-1), 3}
			v[i] = reflect.ValueOf(e[i%len(e)]).Convert(d.D.Type).Interface()
		case "round": // float only: partial sums that round in the element type (2^24 + 1 in float32, 2^53 + 1 in float64)
			big := float64(1 << 53)
			if d.Name == "float32" {
				big = float64(1 << 24)
			}
			e := []float64{big, 1, 1, -3, 0.5, big, 1, 1, 1}
			v[i] = reflect.ValueOf(e[i%len(e)]).Convert(d.D.Type).Interface()
		case "zeros": // float only: signed zeros are EQUAL - the first of them is the extreme, whatever its sign
			e := []float64{math.Copysign(0, -1), 0, -1, 0, math.Copysign(0, -1), -2}
			v[i] = reflect.ValueOf(e[i%len(e)]).Convert(d.D.Type).Interface()
		case "zeros+": // the same for minima: +0 before -0, everything else positive
			e := []float64{0, math.Copysign(0, -1), 1, math.Copysign(0, -1), 0, 2}
			v[i] = reflect.ValueOf(e[i%len(e)]).Convert(d.D.Type).Interface()
		case "overflow":
			e := edgeVals(d)
			v[i] = e[i%2] // min,max alternating (ints); for floats +-Inf
			if d.IsFloat() {
				v[i] = d.Code([]int{1 << 20, -(1 << 20), 3}[i%3])
			}
		}
	}
	return v
}

func runC08(r *core.Run) {
	quick := isQuick(r)
	shapes := ref.DedupShapes(append(ref.ShapesUpTo(1, 3, 3), [][]int{{2, 2, 2, 2}, {2, 1, 2, 3}, {2, 3, 4}, {4, 3}, {5}, {1, 4}, {4, 1}, {3, 2, 1, 2}, {2, 3, 4, 5}, {2, 2, 3, 2}}...))
	if !quick {
		shapes = ref.DedupShapes(append(ref.ShapesUpTo(1, 3, 4), append(ref.Shapes(4, 2), [][]int{{2, 1, 2, 3}, {2, 3, 4, 5}, {3, 3, 3, 3}, {5}, {1, 4}, {4, 1}, {3, 2, 1, 2}, {5, 5}, {8}, {17}, {33}, {4, 9}, {9, 4}, {2, 17}}...)...))
	}
	r.SetBound("shapes", fmt.Sprintf("%d shapes: rank1-3 dims<=%d, rank4 incl. (2,2,2,2),(2,1,2,3),(3,2,1,2)", len(shapes), map[bool]int{true: 3, false: 4}[quick]))
	dts := append([]ref.DT{}, ref.ORDN...)
	type redop struct {
		name string
		f    func(a, b interface{}) interface{}
	}
	sumF := func(a, b interface{}) interface{} { return ref.Arith("Add", a, b).V }
	maxF := func(a, b interface{}) interface{} { return ref.Arith("MaxBetween", a, b).V }
	minF := func(a, b interface{}) interface{} { return ref.Arith("MinBetween", a, b).V }
	mulF := func(a, b interface{}) interface{} { return ref.Arith("Mul", a, b).V }
	ops := []redop{{"Sum", sumF}, {"Max", maxF}, {"Min", minF}}
	for _, d := range append(dts, ref.Complex64, ref.Complex128) {
		for _, shape := range shapes {
			if !r.Take() {
				continue
			}
			if r.Expired() {
				return
			}
			rank := len(shape)
			n := ref.Prod(shape)
			axesSets := subsets(rank)
			if rank >= 2 {
				axesSets = append(axesSets, ref.Reversal(rank)) // non-ascending order of all axes
				if rank >= 3 {
					axesSets = append(axesSets, []int{2, 0})
				}
			}
			for _, vs := range []string{"id", "ties", "overflow", "inf", "round", "zeros", "zeros+"} {
				if d.Class == ref.CComplex && vs != "id" {
					continue
				}
				if (vs == "round" || vs == "zeros" || vs == "zeros+") && !d.IsFloat() {
					continue
				}
				if vs == "inf" && (!d.IsFloat() || len(shape) > 2) {
					continue
				}
				if d.Class == ref.CUint && vs == "ties" {
					continue
				}
				vals := c08Vals(d, n, vs)
				arr := ref.Arr{DT: d, Shape: shape, El: vals}
				for _, lay := range append(append([]string{}, atlas.L5...), "TS", "ST") { // + transpose-of-slice, slice-of-transpose
					for _, op := range ops {
						if d.Class == ref.CComplex && op.name != "Sum" {
							continue
						}
						for _, axes := range axesSets {
							if vs == "zeros" || vs == "zeros+" {
								continue // signed zeros: judged for the arg-reductions below (Max/Min may return either zero)
							}
							if vs == "round" && (op.name != "Sum" || len(axes) != 1) {
								// rounding partial sums: judged where the fold order is beyond doubt - the left fold along ONE axis
								continue
							}
							for _, api := range []string{"func", "method"} {
								if api == "func" && op.name != "Sum" {
									continue // only Sum has a package-level function
								}
								c08Reduce(r, d, shape, lay, vs, op.name, op.f, axes, api, arr)
							}
						}
						// axis lists with an axis given twice (they denote the set of their axes; numbers that are no axis of the operand
						// have no defined result and are not judged: the library reads some of them as 'all axes' and relies on that itself, in Norm)
						if (lay == "C" || lay == "T") && vs == "id" {
							bad := [][]int{{0, 0}, {rank - 1, rank - 1}}
							if rank >= 2 {
								bad = append(bad, []int{0, rank - 1, 0}, []int{rank - 1, 0, rank - 1}, []int{1, 1})
							}
							for _, axes := range bad {
								c08Reduce(r, d, shape, lay, vs, op.name, op.f, axes, "method", arr)
								if op.name == "Sum" {
									c08Reduce(r, d, shape, lay, vs, op.name, op.f, axes, "func", arr)
								}
							}
						}
						// every ORDER of every axis subset (the axis list is sorted internally): contiguous operands, one value set
						if lay == "C" && vs == "id" && rank >= 3 {
							for _, sub := range subsets(rank) {
								if len(sub) < 2 {
									continue
								}
								for _, pm := range ref.Perms(len(sub)) {
									axes := make([]int, len(sub))
									asc, desc := true, true
									for i, p := range pm {
										axes[i] = sub[p]
										if i > 0 && axes[i] > axes[i-1] {
											desc = false
										}
										if i > 0 && axes[i] < axes[i-1] {
											asc = false
										}
									}
									if asc || (desc && len(sub) == rank) {
										continue // run above
									}
									c08Reduce(r, d, shape, lay, vs, op.name, op.f, axes, "method", arr)
								}
							}
						}
					}
					// arg-reductions
					if d.Class != ref.CComplex {
						for _, am := range []string{"Argmax", "Argmin"} {
							for ax := -1; ax < rank; ax++ {
								for _, api := range []string{"func", "method"} {
									c08Arg(r, d, shape, lay, vs, am, ax, api, arr)
								}
							}
						}
					}
					// generic Reduce
					if vs == "id" && d.Class != ref.CComplex {
						for _, g := range []redop{{"add", sumF}, {"mul", mulF}, {"max", maxF}} {
							for ax := 0; ax < rank; ax++ {
								c08Generic(r, d, shape, lay, g.name, g.f, ax, arr)
							}
						}
					}
				}
			}
		}
	}
}

func buildVerified(d ref.DT, shape []int, vals []interface{}, lay string) *atlas.Built {
	b, err := atlas.Build(d, shape, vals, lay)
	if err != nil {
		return nil
	}
	if b.VerifyLogical() != nil {
		return nil
	}
	return b
}

func cmpArr(res *tensor.Dense, want ref.Arr, what string, approx bool) *core.Fail {
	if res.Dtype() != want.DT.D {
		return core.F("wrong-dtype", "dt", "%s: dtype %v expected %v", what, res.Dtype(), want.DT.D)
	}
	if !ref.EqInts(res.Shape(), want.Shape) && !(len(want.Shape) == 0 && ref.Prod(res.Shape()) == 1 && (res.IsScalar() || len(res.Shape()) == 1)) {
		return core.F("wrong-shape", "sh", "%s: shape %v expected %v", what, res.Shape(), want.Shape)
	}
	got, err := atlas.Logical(res)
	if err != nil || len(got) != len(want.El) {
		return core.F("wrong-value", "unreadable", "%s: result unreadable (%v), %d elements expected %d", what, err, len(got), len(want.El))
	}
	for i := range got {
		if !ref.Same(got[i], want.El[i]) && !(approx && ref.Close(got[i], want.El[i])) {
			return core.F("wrong-value", fmt.Sprintf("el%d", i), "%s: element %d is %s, expected %s; got %s expected %s", what, i, ref.Fmt(got[i]), ref.Fmt(want.El[i]), ref.FmtEls(got), ref.FmtEls(want.El))
		}
	}
	// a result with the right elements is also a well-formed tensor (C13's invariant: size = product of the shape, strides
	// that address distinct in-bounds positions, an order flag that fits the strides) - a later operation relies on it
	if msg := atlas.MetaInvariant(res); msg != "" {
		return core.F("invariant-violated", "meta", "%s: the result has the right elements but %s", what, msg)
	}
	if msg := atlas.OrderInvariant(res); msg != "" {
		return core.F("invariant-violated", "order", "%s: the result has the right elements but %s", what, msg)
	}
	// ... and used as a starting state it copies to the same elements
	var cl *tensor.Dense
	if o := call(func() error { cl, _ = res.Clone().(*tensor.Dense); return nil }); o.Class != "ok" || cl == nil {
		return core.F("wrong-value", "clone", "%s: the result cannot be cloned (%s)", what, o)
	}
	if got2, err := atlas.Logical(cl); err != nil || len(got2) != len(got) {
		return core.F("wrong-value", "clone", "%s: the clone of the result is unreadable (%v)", what, err)
	} else {
		for i := range got2 {
			if !ref.Same(got2[i], got[i]) {
				return core.F("wrong-value", "clone", "%s: the result reads %s but its clone reads %s", what, ref.FmtEls(got), ref.FmtEls(got2))
			}
		}
	}
	return nil
}

func c08Reduce(r *core.Run, d ref.DT, shape []int, lay, vs, op string, f func(a, b interface{}) interface{}, axes []int, api string, arr ref.Arr) {
	id := fmt.Sprintf(propPfx+"C08|%s|%s|%s|%s|%s|axes=%s|%s", op, d.Name, shapeStr(shape), lay, vs, strings.ReplaceAll(fmt.Sprint(axes), " ", ","), api)
	if r.ReplayCase != "" && id != r.ReplayCase {
		return
	}
	r.Case(id, len(arr.El) >= 2, func() *core.Fail {
		tensor.VerifResetPools()
		b := buildVerified(d, shape, arr.El, lay)
		if b == nil {
			r.Dim("skipped", lay)
			return nil
		}
		r.State(d.Name + "|" + atlas.StateKey(b.T, atlas.RootPtr(b.Root)))
		snap := b.Snapshot()
		callerAxes := append(make([]int, 0, len(axes)+2), axes...)
		keep := ref.CopyInts(callerAxes)
		var res *tensor.Dense
		o := call(func() (e error) {
			if api == "func" {
				var t tensor.Tensor
				t, e = tensor.Sum(b.T, callerAxes...)
				if t != nil {
					res, _ = t.(*tensor.Dense)
				}
				return
			}
			switch op {
			case "Sum":
				res, e = b.T.Sum(callerAxes...)
			case "Max":
				res, e = b.T.Max(callerAxes...)
			case "Min":
				res, e = b.T.Min(callerAxes...)
			}
			return
		})
		r.Op(1)
		r.Outcome(op + ":" + o.Class)
		if ch := b.Changed(snap); ch != "" {
			return core.F("operand-changed", "op", "%s along %v changed its operand (%s): %s", op, axes, lay, ch)
		}
		if !ref.EqInts(callerAxes, keep) {
			return core.F("caller-slice-mutated", "ax", "%s reordered the caller's axes slice %v -> %v", op, keep, callerAxes)
		}
		if o.Class != "ok" {
			return nil // refusal
		}
		if res == nil {
			return core.F("wrong-type", "nil", "nil result")
		}
		// an axis list denotes the SET of its axes: one that is given twice is refused or counts once; one that is not an
		// axis of the operand has no result
		var set []int
		seen := map[int]bool{}
		for _, ax := range axes {
			if ax < 0 || ax >= len(shape) {
				return core.F("accepted-invalid", "axis", "%s along %v of %s was computed (shape %v): %d is not an axis", op, axes, shapeStr(shape), res.Shape(), ax)
			}
			if !seen[ax] {
				seen[ax] = true
				set = append(set, ax)
			}
		}
		want := reduceModel(arr, set, f)
		return cmpArr(res, want, fmt.Sprintf("%s along %v of %s layout %s", op, axes, shapeStr(shape), lay), false)
	})
}

func c08Arg(r *core.Run, d ref.DT, shape []int, lay, vs, am string, ax int, api string, arr ref.Arr) {
	axn := fmt.Sprint(ax)
	if ax < 0 {
		axn = "all"
	}
	id := fmt.Sprintf(propPfx+"C08|%s|%s|%s|%s|%s|axis=%s|%s", am, d.Name, shapeStr(shape), lay, vs, axn, api)
	if r.ReplayCase != "" && id != r.ReplayCase {
		return
	}
	r.Case(id, len(arr.El) >= 2, func() *core.Fail {
		tensor.VerifResetPools()
		b := buildVerified(d, shape, arr.El, lay)
		if b == nil {
			return nil
		}
		snap := b.Snapshot()
		axis := ax
		if ax < 0 {
			axis = tensor.AllAxes
		}
		var res *tensor.Dense
		o := call(func() (e error) {
			if api == "func" {
				var t tensor.Tensor
				if am == "Argmax" {
					t, e = tensor.Argmax(b.T, axis)
				} else {
					t, e = tensor.Argmin(b.T, axis)
				}
				if t != nil {
					res, _ = t.(*tensor.Dense)
				}
				return
			}
			if am == "Argmax" {
				res, e = b.T.Argmax(axis)
			} else {
				res, e = b.T.Argmin(axis)
			}
			return
		})
		r.Op(1)
		r.Outcome(am + ":" + o.Class)
		if ch := b.Changed(snap); ch != "" {
			return core.F("operand-changed", "op", "%s changed its operand: %s", am, ch)
		}
		if o.Class != "ok" || res == nil {
			return nil
		}
		better := func(x, y interface{}) bool { // x strictly better than y
			if am == "Argmax" {
				return ref.Compare("Gt", x, y).V.(bool)
			}
			return ref.Compare("Lt", x, y).V.(bool)
		}
		var want ref.Arr
		if ax < 0 {
			best := 0
			for i := range arr.El {
				if better(arr.El[i], arr.El[best]) {
					best = i
				}
			}
			want = ref.Arr{DT: ref.Int, Shape: []int{}, El: []interface{}{best}}
		} else {
			var oshape []int
			for i, dd := range shape {
				if i != ax {
					oshape = append(oshape, dd)
				}
			}
			if oshape == nil {
				oshape = []int{}
			}
			want = ref.Arr{DT: ref.Int, Shape: oshape, El: make([]interface{}, ref.Prod(oshape))}
			bestV := make([]interface{}, len(want.El))
			oc := make([]int, len(oshape))
			ref.ForCoords(shape, func(c []int) {
				j := 0
				for i := range c {
					if i != ax {
						oc[j] = c[i]
						j++
					}
				}
				k := ref.RowRank(oshape, oc)
				v := arr.At(c)
				if want.El[k] == nil || better(v, bestV[k]) {
					if want.El[k] == nil || better(v, bestV[k]) {
						want.El[k] = c[ax]
						bestV[k] = v
					}
				}
			})
		}
		f := cmpArr(res, want, fmt.Sprintf("%s axis %s of %s layout %s values %s", am, axn, shapeStr(shape), lay, ref.FmtEls(arr.El)), false)
		if f != nil && f.Kind == "wrong-value" && ax >= 0 && tensor.Shape(shape).IsColVec() && b.T.IsView() {
			// precondition of F-C03-strided-vector-view: the axis is moved last with AP.T, whose vector branch forgets
			// the stride of a step-sliced column vector
			if st := b.T.Strides(); len(st) > 0 && st[0] != 1 {
				f.Kind += "[KF:strided-vector-view]"
			}
		}
		return f
	})
}

func c08Generic(r *core.Run, d ref.DT, shape []int, lay, name string, f func(a, b interface{}) interface{}, ax int, arr ref.Arr) {
	id := fmt.Sprintf(propPfx+"C08|Reduce:%s|%s|%s|%s|axis=%d", name, d.Name, shapeStr(shape), lay, ax)
	if r.ReplayCase != "" && id != r.ReplayCase {
		return
	}
	r.Case(id, len(arr.El) >= 2, func() *core.Fail {
		tensor.VerifResetPools()
		b := buildVerified(d, shape, arr.El, lay)
		if b == nil {
			return nil
		}
		snap := b.Snapshot()
		t := d.D.Type
		ft := reflect.FuncOf([]reflect.Type{t, t}, []reflect.Type{t}, false)
		fn := reflect.MakeFunc(ft, func(in []reflect.Value) []reflect.Value {
			return []reflect.Value{reflect.ValueOf(f(in[0].Interface(), in[1].Interface()))}
		}).Interface()
		def := d.Code(0)
		if name == "mul" {
			def = d.Code(1)
		}
		if name == "max" {
			def = edgeVals(d)[0]
			if d.IsFloat() {
				def = d.Code(-1000)
			}
			if d.Class == ref.CUint {
				def = d.Code(0)
			}
		}
		var res *tensor.Dense
		o := call(func() (e error) { res, e = b.T.Reduce(fn, ax, def); return })
		r.Op(1)
		r.Outcome("Reduce:" + o.Class)
		if ch := b.Changed(snap); ch != "" {
			return core.F("operand-changed", "op", "Reduce changed its operand: %s", ch)
		}
		if o.Class != "ok" || res == nil {
			return nil
		}
		want := reduceModel(arr, []int{ax}, f)
		return cmpArr(res, want, fmt.Sprintf("Reduce(%s) axis %d of %s layout %s", name, ax, shapeStr(shape), lay), false)
	})
}
