package props

import (
	"fmt"
	"strings"

	"gorgonia.org/tensor"
	"verifharness/atlas"
	"verifharness/core"
	"verifharness/ref"
)

func init() {
	register(&Def{ID: "C16", Engine: "E1", Run: runC16,
		Rule: "the generators of C01/C02 (element access, slicing), C04 (view writes, copies, conversions), C06/C11/C12/C07 (elementwise operations and option modes), C08 (reductions), C09 (products), C10 (stacking/repetition) and C14 (serialisation) re-run with every operand and destination independently taken from the column-major family LF = {F (declared over raw backing), Fc (converting constructor), FS (slice of F), FT (lazy transpose of F), FM (materialised FS), FR / FL (only the first / only the last axis sliced: slice lists shorter than the rank, contiguous column-major views)} and mixed with row-major C; " +
			"oracle: the SAME reference result as for row-major operands (the model is layout-free); any refusal (error or panic) is accepted, a different arrangement of elements never. one case = one tuple; non-trivial = >= 2 elements",
		Assume: []string{"reshape is excluded (C13: it follows the tensor's own data order)", "transposition of column-major tensors is covered by C03 (source F) and recorded there"}})
}

var lfAll = []string{"F", "Fc", "FS", "FT", "FM", "FR", "FL"}

func runC16(r *core.Run) {
	propPfx = "C16:"
	lenient = true
	defer func() { propPfx, lenient = "", false }()
	quick := isQuick(r)
	shapes := [][]int{{2, 3}, {3, 2}, {3, 1}, {1, 3}, {2, 1, 3}, {2, 3, 2}, {2, 2, 2, 2}}
	if !quick {
		shapes = append(shapes, []int{4, 3}, []int{3, 3, 3}, []int{2, 3, 2, 2}, []int{2, 1, 2, 3}, []int{1, 1}, []int{1, 2, 1})
	}
	r.SetBound("shapes", fmt.Sprint(shapes))
	mixed := append([]string{"C"}, lfAll...)
	// ---- C01/C02: element access and slicing of column-major states
	for _, d := range ref.W6 {
		for _, shape := range shapes {
			for _, lay := range lfAll {
				if !r.Take() {
					continue
				}
				if r.Expired() {
					return
				}
				d, shape, lay := d, shape, lay
				n := ref.Prod(shape)
				mk := func() *atlas.Built {
					vals := make([]interface{}, n)
					for i := range vals {
						vals[i] = d.Code(i)
					}
					b, err := atlas.Build(d, shape, vals, lay)
					if err != nil {
						return nil
					}
					return b
				}
				if mk() == nil {
					r.Dim("skipped", "access:"+lay)
					continue
				}
				for _, op := range []string{"At", "SetAt"} {
					op := op
					r.Case(fmt.Sprintf("C16:C01|%s|%s|%s|%s", d.Name, shapeStr(shape), lay, op), n >= 2, func() *core.Fail {
						tensor.VerifResetPools()
						b := mk()
						if lay != "FM" {
							d.FillCodes(b.Root, 0)
						}
						if cells, ok := b.APCells(); !ok || !ref.EqInts(cells, b.View.Cell) {
							return core.F("wrong-value", "ap", "layout %s of %v: the tensor's access pattern denotes cells %v, the model %v", lay, shape, cells, b.View.Cell)
						}
						r.State(d.Name + "|" + atlas.StateKey(b.T, atlas.RootPtr(b.Root)))
						f, calls, _, _ := sweepBox(b, op, false)
						r.Op(calls)
						return f
					})
				}
				r.Case(fmt.Sprintf("C16:C02|%s|%s|%s|reduced", d.Name, shapeStr(shape), lay), n >= 2, func() *core.Fail {
					tensor.VerifResetPools()
					b := mk()
					if lay != "FM" {
						d.FillCodes(b.Root, 0)
					}
					snap := b.Snapshot()
					var fails []string
					kinds := map[string]bool{}
					lists := atlas.SliceLists(shape, atlas.AxisAlphabet)
					// slice lists shorter than the rank (only leading axes given)
					for k := 1; k < len(shape); k++ {
						lists = append(lists, atlas.SliceLists(shape[:k], atlas.AxisAlphabet)...)
					}
					for _, sl := range lists {
						v := checkSlice(b, sl, "Slice", snap)
						r.Op(1)
						if v.kind != "" && !strings.Contains(v.kind, "[KF:") && v.kind != "unexpected-refusal" {
							kinds[v.kind] = true
							if len(fails) < 6 {
								fails = append(fails, slListStr(sl)+"→"+v.kind+": "+v.detail)
							}
						}
					}
					return c13Join(kinds, fails)
				})
			}
		}
	}
	// ---- C04: writes through column-major views and copies / conversions of column-major sources
	for _, d := range []ref.DT{ref.Float64, ref.Uint8, ref.Int, ref.String, ref.Complex128, ref.Bool} {
		for _, shape := range shapes {
			n := ref.Prod(shape)
			for _, lay := range lfAll {
				if !r.Take() {
					continue
				}
				for _, w := range c04Writes {
					if w.numeric && !d.IsNumber() {
						continue
					}
					d, shape, lay, wn := d, shape, lay, w.name
					r.Case(fmt.Sprintf("C16:C04|write|%s|%s|%s|%s", d.Name, shapeStr(shape), lay, wn), n >= 2, func() *core.Fail {
						tensor.VerifResetPools()
						vals := make([]interface{}, n)
						for i := range vals {
							vals[i] = d.Code(i)
						}
						b, err := atlas.Build(d, shape, vals, lay)
						if err != nil {
							return nil
						}
						if lay != "FM" {
							d.FillCodes(b.Root, 1)
						}
						if cells, ok := b.APCells(); !ok || !ref.EqInts(cells, b.View.Cell) {
							return nil
						}
						return c04CheckWrite(r, b, wn)
					})
				}
				for _, cop := range []string{"Clone", "Materialize", "SafeT", "Copy", "CopyTo", "ShallowClone", "ToMat64", "ToMat64Unsafe", "native"} {
					d, shape, lay, cop := d, shape, lay, cop
					r.Case(fmt.Sprintf("C16:C04|copy|%s|%s|%s|%s", d.Name, shapeStr(shape), lay, cop), n >= 2, func() *core.Fail {
						tensor.VerifResetPools()
						vals := make([]interface{}, n)
						for i := range vals {
							vals[i] = d.Code(i + 1)
						}
						b := buildVerified(d, shape, vals, lay)
						if b == nil {
							return nil
						}
						return c04CheckCopy(r, b, cop)
					})
				}
			}
		}
	}
	// ---- elementwise operations
	ewD := []ref.DT{ref.Float64, ref.Int, ref.Uint8, ref.Float32, ref.Complex128}
	if !quick {
		ewD = ref.NUM14
	}
	for _, d := range ewD {
		for _, shape := range shapes {
			if !r.Take() {
				continue
			}
			if r.Expired() {
				return
			}
			for _, la := range mixed {
				for _, lb := range mixed {
					if la == "C" && lb == "C" {
						continue
					}
					for _, op := range []string{"Add", "Sub", "Div", "MaxBetween"} {
						if !supportsArith(op, d) {
							continue
						}
						for _, mode := range []string{"safe", "unsafe", "reuse:F", "reuse:C", "incr:F", "incr:C", "reuse=a"} {
							if quick && mode != "safe" && !(la == "F" || lb == "F" || la == "FT") {
								continue
							}
							for _, api := range []string{"func", "method"} {
								if api == "method" && (methTT[op] == nil || mode != "safe") {
									continue
								}
								ewRunCase(r, "C16:C06", ewCase{kind: "arith", op: op, form: "TT", mode: mode, api: api, d: d, shape: shape, layA: la, layB: lb, vs: "id"}, nil)
							}
						}
					}
					if d.Class != ref.CComplex {
						for _, mode := range []string{"safe", "same+safe", "unsafe"} {
							ewRunCase(r, "C16:C11", ewCase{kind: "cmp", op: "Lt", form: "TT", mode: mode, api: "func", d: d, shape: shape, layA: la, layB: lb, vs: "id"}, nil)
						}
					}
				}
				if la == "C" {
					continue
				}
				for _, form := range []string{"TS", "ST"} {
					for _, mode := range []string{"safe", "unsafe", "reuse:F", "reuse:C", "incr:F", "incr:C"} {
						ewRunCase(r, "C16:C06", ewCase{kind: "arith", op: "Sub", form: form, mode: mode, api: "func", d: d, shape: shape, layA: la, layB: la, vs: "id"}, nil)
						if d.Class != ref.CComplex {
							ewRunCase(r, "C16:C11", ewCase{kind: "cmp", op: "Gt", form: form, mode: mode, api: "func", d: d, shape: shape, layA: la, layB: la, vs: "id"}, nil)
						}
					}
				}
				for _, op := range []string{"Neg", "Square", "Sqrt", "Abs"} {
					for _, mode := range []string{"safe", "unsafe", "reuse:F", "incr:F"} {
						ewRunCase(r, "C16:C12", ewCase{kind: "unary", op: op, form: "U", mode: mode, api: "func", d: d, shape: shape, layA: la, layB: la, vs: "id"}, nil)
					}
				}
			}
		}
	}
	// ---- reductions
	sumF := func(a, b interface{}) interface{} { return ref.Arith("Add", a, b).V }
	maxF := func(a, b interface{}) interface{} { return ref.Arith("MaxBetween", a, b).V }
	for _, d := range []ref.DT{ref.Float64, ref.Int, ref.Uint8, ref.Float32} {
		for _, shape := range shapes {
			if !r.Take() {
				continue
			}
			n := ref.Prod(shape)
			arr := ref.Arr{DT: d, Shape: shape, El: c08Vals(d, n, "id")}
			for _, lay := range lfAll {
				for _, axes := range subsets(len(shape)) {
					c08Reduce(r, d, shape, lay, "id", "Sum", sumF, axes, "func", arr)
					c08Reduce(r, d, shape, lay, "id", "Max", maxF, axes, "method", arr)
				}
				for ax := -1; ax < len(shape); ax++ {
					c08Arg(r, d, shape, lay, "id", "Argmax", ax, "func", arr)
					c08Arg(r, d, shape, lay, "id", "Argmin", ax, "method", arr)
				}
				// extremes in the INTERIOR (an ascending ramp has its minimum at offset 0 and its maximum at the last offset in
				// either data order: a kernel that answers with a storage offset would pass)
				if d.Class != ref.CUint {
					arrT := ref.Arr{DT: d, Shape: shape, El: c08Vals(d, n, "ties")}
					for ax := -1; ax < len(shape); ax++ {
						c08Arg(r, d, shape, lay, "ties", "Argmax", ax, "method", arrT)
						c08Arg(r, d, shape, lay, "ties", "Argmin", ax, "func", arrT)
					}
				}
			}
		}
	}
	// ---- products
	for _, d := range []ref.DT{ref.Float64, ref.Float32, ref.Complex128} {
		for _, la := range mixed {
			for _, lb := range mixed {
				if (la == "C" && lb == "C") || !r.Take() {
					continue
				}
				if r.Expired() {
					return
				}
				for m := 1; m <= 3; m++ {
					for k := 1; k <= 3; k++ {
						for _, mode := range []string{"safe", "reuse", "incr"} {
							laRun(r, laCase{op: "MatVecMul", d: d, sa: []int{m, k}, sb: []int{k}, la: la, lb: "C", mode: mode, vs: "int", api: "method"})
							for nn := 1; nn <= 3; nn++ {
								laRun(r, laCase{op: "MatMul", d: d, sa: []int{m, k}, sb: []int{k, nn}, la: la, lb: lb, mode: mode, vs: "int", api: "method"})
							}
						}
						laRun(r, laCase{op: "Dot", d: d, sa: []int{m, k}, sb: []int{k, m}, la: la, lb: lb, mode: "safe", vs: "int", api: "func"})
						laRun(r, laCase{op: "Dot", d: d, sa: []int{k}, sb: []int{k, m}, la: "C", lb: lb, mode: "safe", vs: "int", api: "func"})
						laRun(r, laCase{op: "Trace", d: d, sa: []int{m, k}, la: la, lb: la, mode: "safe", vs: "int", api: "method"})
						laRun(r, laCase{op: "Outer", d: d, sa: []int{m, 1}, sb: []int{1, k}, la: la, lb: lb, mode: "safe", vs: "int", api: "method"})
						laRun(r, laCase{op: "Inner", d: d, sa: []int{k, 1}, sb: []int{1, k}, la: la, lb: lb, mode: "safe", vs: "int", api: "method"})
					}
				}
				for _, ts := range [][2][]int{{{2, 3}, {3, 2}}, {{2, 3, 2}, {2, 3}}, {{3, 2, 2}, {2, 2, 3}}} {
					for i := range ts[0] {
						for j := range ts[1] {
							if ts[0][i] == ts[1][j] {
								laRun(r, laCase{op: "TensorMul", d: d, sa: ts[0], sb: ts[1], la: la, lb: lb, mode: "safe", vs: "int", api: "method", axA: []int{i}, axB: []int{j}})
							}
						}
					}
				}
			}
		}
	}
	// ---- stacking / repetition
	for _, d := range []ref.DT{ref.Float64, ref.Uint8, ref.String} {
		for _, s := range [][]int{{2, 3}, {3, 2}, {2, 1, 3}, {2, 3, 2}} {
			for _, la := range mixed {
				for _, lb := range mixed {
					if (la == "C" && lb == "C") || !r.Take() {
						continue
					}
					rank := len(s)
					for axis := 0; axis < rank; axis++ {
						s2 := ref.CopyInts(s)
						s2[axis]++
						c10Join(r, "Concat", d, [][]int{s, s2}, []string{la, lb}, axis, "method")
					}
					for axis := 0; axis <= rank; axis++ {
						c10Join(r, "Stack", d, [][]int{s, s}, []string{la, lb}, axis, "method")
					}
					c10Join(r, "Hstack", d, [][]int{s, s}, []string{la, lb}, 0, "method")
					c10Join(r, "Vstack", d, [][]int{s, s}, []string{la, lb}, 0, "method")
				}
				if la != "C" {
					for axis := -1; axis < len(s); axis++ {
						for _, reps := range [][]int{{0}, {1}, {2}} {
							c10Repeat(r, d, s, la, axis, reps, "method")
						}
					}
				}
			}
		}
	}
	// ---- serialisation
	for _, f := range ioFmts {
		for _, d := range []ref.DT{ref.Float64, ref.Int, ref.Uint8, ref.String, ref.Bool} {
			for _, shape := range shapes {
				if !r.Take() {
					continue
				}
				for _, lay := range lfAll {
					c14Case(r, f, d, shape, lay, "id", -1)
				}
			}
		}
	}
}
