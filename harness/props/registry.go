// Package props holds the per-property drivers: alphabet, bound and oracle of each check.
package props

import (
	"fmt"

	"verifharness/core"
)

type Def struct {
	ID     string
	Engine string
	Level  string
	Rule   string
	Assume []string
	Run    func(r *core.Run)
	// Configs lists extra build configurations the driver must also build and run (tags), "" = default.
	Configs []string
}

var Registry = map[string]*Def{}

func register(d *Def) {
	if d.Level == "" {
		d.Level = "model_checking"
	}
	Registry[d.ID] = d
}

// call runs a library call under recover and classifies the outcome.
type Outcome struct {
	Class string // "ok" | "err" | "panic"
	Err   error
	Panic interface{}
}

func call(f func() error) (o Outcome) {
	defer func() {
		if p := recover(); p != nil {
			o = Outcome{Class: "panic", Panic: p}
		}
	}()
	if err := f(); err != nil {
		return Outcome{Class: "err", Err: err}
	}
	return Outcome{Class: "ok"}
}

func (o Outcome) String() string {
	switch o.Class {
	case "err":
		return fmt.Sprintf("error(%v)", o.Err)
	case "panic":
		return fmt.Sprintf("panic(%v)", o.Panic)
	}
	return "ok"
}

func shapeStr(s []int) string {
	out := "("
	for i, d := range s {
		if i > 0 {
			out += ","
		}
		out += fmt.Sprint(d)
	}
	return out + ")"
}

func isQuick(r *core.Run) bool { return r.Tier != "thorough" }

// propPfx is prepended to case ids by the shared generators when another property (C16) re-runs them;
// lenient makes every refusal acceptable (C16: "or refuses").
var propPfx string
var lenient bool
