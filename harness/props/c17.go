package props

import (
	"fmt"
	"math"
	"reflect"
	"sort"
	"strings"

	"gorgonia.org/tensor"
	"verifharness/atlas"
	"verifharness/core"
	"verifharness/ref"
)

func init() {
	register(&Def{ID: "C17", Engine: "E1", Run: runC17,
		Rule: "for every generated operation family (arithmetic and comparisons in function and method form, equality on all 18 element types, unary incl. transcendental kernels (relative tolerance 2e-6), reductions incl. the generic Reduce, arg-reductions, Apply with plain and error-returning functions in place / into a destination / incrementing, masking predicates, typed get/set/memset/eq, native, gonum and Arrow conversions) and every kernel variant {vector-vector, vector-scalar, scalar-vector, iterator, incr, iterator-incr, reuse (recv), same-type, same-type iterator} selected through the public API, the operation is run for EVERY element type on operands whose values and exact results are representable in all participating types (small non-negative integers, results <= 100, no zero divisors); " +
			"each type's result, converted to float64, must equal the result of the one type-generic definition evaluated on the same numbers (so all types agree with each other). one case = (family, operation, variant) swept over all element types; non-trivial = >= 2 element types computed it. function coverage of the generated sources by this sweep is measured with a -cover build and reported (auxiliary)",
		Assume: []string{"a type an operation refuses is recorded as unsupported for that (operation, variant); refusals are not failures", "complex types take part with zero imaginary parts; their results must be real"}})
}

// values of the C17 sweep: a, b over a (2,3) tensor; every op's exact result fits every numeric type
var c17A = []int{2, 4, 4, 6, 8, 10}
var c17B = []int{1, 2, 2, 3, 4, 2}
var c17P = []int{1, 2, 2, 1, 2, 1} // exponents

func c17Vals(d ref.DT, ks []int) []interface{} {
	v := make([]interface{}, len(ks))
	for i, k := range ks {
		v[i] = d.Code(k)
	}
	return v
}

// toF converts a result element to float64; ok=false when it is not a real number representable that way.
func toF(v interface{}) (float64, bool) {
	switch x := v.(type) {
	case complex64:
		if imag(x) != 0 {
			return 0, false
		}
		return float64(real(x)), true
	case complex128:
		if imag(x) != 0 {
			return 0, false
		}
		return real(x), true
	case uintptr:
		return float64(x), true
	}
	return ref.ToF64(v)
}

type c17inst struct {
	family, op, variant string
	// run computes the operation for element type d; returns the result elements, or refused=true
	run func(d ref.DT) (res []interface{}, refused bool, err string)
	// generic: the type-generic definition on float64 numbers
	generic func() []float64
	dts     []ref.DT
}

// c17Tol: relative tolerance per family (0 = exact); transcendental kernels need only agree to float32 precision
var c17Tol = map[string]float64{"unary-math": 2e-6, "softmax": 2e-6}

func clamp37(ks []int) []float64 {
	o := make([]float64, len(ks))
	for i, k := range ks {
		o[i] = math.Min(math.Max(float64(k), 3), 7)
	}
	return o
}

func c17Build(d ref.DT, ks []int, lay string) *tensor.Dense {
	b, err := atlas.Build(d, []int{2, 3}, c17Vals(d, ks), lay)
	if err != nil {
		return nil
	}
	return b.T
}

func resOf(t tensor.Tensor, e error) ([]interface{}, bool, string) {
	if e != nil {
		return nil, true, ""
	}
	dt, ok := t.(*tensor.Dense)
	if !ok || dt == nil {
		return nil, false, "nil result"
	}
	v, err := atlas.Logical(dt)
	if err != nil {
		return nil, false, err.Error()
	}
	return v, false, ""
}

func fl(ks []int) []float64 {
	o := make([]float64, len(ks))
	for i, k := range ks {
		o[i] = float64(k)
	}
	return o
}

func zipF(a, b []int, f func(x, y float64) float64) []float64 {
	o := make([]float64, len(a))
	for i := range a {
		o[i] = f(float64(a[i]), float64(b[i]))
	}
	return o
}

func c17Instances() []c17inst {
	var out []c17inst
	num := ref.NUM14
	ordn := ref.ORDN
	type binDef struct {
		op string
		b  []int
		f  func(x, y float64) float64
	}
	pow := func(x, y float64) float64 {
		r := 1.0
		for i := 0; i < int(y); i++ {
			r *= x
		}
		return r
	}
	mod := func(x, y float64) float64 { return float64(int(x) % int(y)) }
	bins := []binDef{{"Add", c17B, func(x, y float64) float64 { return x + y }}, {"Sub", c17B, func(x, y float64) float64 { return x - y }},
		{"Mul", c17B, func(x, y float64) float64 { return x * y }}, {"Div", c17B, func(x, y float64) float64 { return x / y }},
		{"Mod", c17B, mod}, {"Pow", c17P, pow},
		{"MinBetween", c17B, func(x, y float64) float64 {
			if x < y {
				return x
			}
			return y
		}}, {"MaxBetween", c17B, func(x, y float64) float64 {
			if x > y {
				return x
			}
			return y
		}}}
	for _, bd := range bins {
		bd := bd
		sc := 2
		scf := float64(sc)
		constB := []int{sc, sc, sc, sc, sc, sc}
		variants := []struct {
			name string
			run  func(d ref.DT) ([]interface{}, bool, string)
			gen  func() []float64
		}{
			{"VV", func(d ref.DT) ([]interface{}, bool, string) {
				return resOf(binFns[bd.op](c17Build(d, c17A, "C"), c17Build(d, bd.b, "C")))
			}, func() []float64 { return zipF(c17A, bd.b, bd.f) }},
			{"VV-iter", func(d ref.DT) ([]interface{}, bool, string) {
				return resOf(binFns[bd.op](c17Build(d, c17A, "C"), c17Build(d, bd.b, "T")))
			}, func() []float64 { return zipF(c17A, bd.b, bd.f) }},
			{"VV-iter2", func(d ref.DT) ([]interface{}, bool, string) {
				return resOf(binFns[bd.op](c17Build(d, c17A, "SS"), c17Build(d, bd.b, "S")))
			}, func() []float64 { return zipF(c17A, bd.b, bd.f) }},
			{"VS", func(d ref.DT) ([]interface{}, bool, string) {
				return resOf(binFns[bd.op](c17Build(d, c17A, "C"), d.Code(sc)))
			}, func() []float64 { return zipF(c17A, constB, bd.f) }},
			{"SV", func(d ref.DT) ([]interface{}, bool, string) {
				return resOf(binFns[bd.op](d.Code(sc*6), c17Build(d, bd.b, "C")))
			}, func() []float64 { return zipF([]int{12, 12, 12, 12, 12, 12}, bd.b, bd.f) }},
			{"VS-iter", func(d ref.DT) ([]interface{}, bool, string) {
				return resOf(binFns[bd.op](c17Build(d, c17A, "SS"), d.Code(sc)))
			}, func() []float64 { return zipF(c17A, constB, bd.f) }},
			{"SV-iter", func(d ref.DT) ([]interface{}, bool, string) {
				return resOf(binFns[bd.op](d.Code(sc*6), c17Build(d, bd.b, "T")))
			}, func() []float64 { return zipF([]int{12, 12, 12, 12, 12, 12}, bd.b, bd.f) }},
			{"unsafe", func(d ref.DT) ([]interface{}, bool, string) {
				return resOf(binFns[bd.op](c17Build(d, c17A, "C"), c17Build(d, bd.b, "C"), tensor.UseUnsafe()))
			}, func() []float64 { return zipF(c17A, bd.b, bd.f) }},
			{"recv", func(d ref.DT) ([]interface{}, bool, string) {
				return resOf(binFns[bd.op](c17Build(d, c17A, "C"), c17Build(d, bd.b, "C"), tensor.WithReuse(c17Build(d, c17B, "C"))))
			}, func() []float64 { return zipF(c17A, bd.b, bd.f) }},
			{"recv-iter", func(d ref.DT) ([]interface{}, bool, string) {
				return resOf(binFns[bd.op](c17Build(d, c17A, "T"), c17Build(d, bd.b, "C"), tensor.WithReuse(c17Build(d, c17B, "C"))))
			}, func() []float64 { return zipF(c17A, bd.b, bd.f) }},
			{"incr", func(d ref.DT) ([]interface{}, bool, string) {
				return resOf(binFns[bd.op](c17Build(d, c17A, "C"), c17Build(d, bd.b, "C"), tensor.WithIncr(c17Build(d, c17B, "C"))))
			}, func() []float64 {
				o := zipF(c17A, bd.b, bd.f)
				for i := range o {
					o[i] += float64(c17B[i])
				}
				return o
			}},
			{"incr-iter", func(d ref.DT) ([]interface{}, bool, string) {
				return resOf(binFns[bd.op](c17Build(d, c17A, "T"), c17Build(d, bd.b, "SS"), tensor.WithIncr(c17Build(d, c17B, "C"))))
			}, func() []float64 {
				o := zipF(c17A, bd.b, bd.f)
				for i := range o {
					o[i] += float64(c17B[i])
				}
				return o
			}},
			{"VS-incr", func(d ref.DT) ([]interface{}, bool, string) {
				return resOf(binFns[bd.op](c17Build(d, c17A, "C"), d.Code(sc), tensor.WithIncr(c17Build(d, c17B, "C"))))
			}, func() []float64 {
				o := zipF(c17A, constB, bd.f)
				for i := range o {
					o[i] += float64(c17B[i])
				}
				return o
			}},
		}
		_ = scf
		twelve := []int{12, 12, 12, 12, 12, 12}
		addB := func(o []float64) []float64 {
			for i := range o {
				o[i] += float64(c17B[i])
			}
			return o
		}
		variants = append(variants, []struct {
			name string
			run  func(d ref.DT) ([]interface{}, bool, string)
			gen  func() []float64
		}{
			{"SV-incr", func(d ref.DT) ([]interface{}, bool, string) {
				return resOf(binFns[bd.op](d.Code(sc*6), c17Build(d, bd.b, "C"), tensor.WithIncr(c17Build(d, c17B, "C"))))
			}, func() []float64 { return addB(zipF(twelve, bd.b, bd.f)) }},
			{"SV-incr-iter", func(d ref.DT) ([]interface{}, bool, string) {
				return resOf(binFns[bd.op](d.Code(sc*6), c17Build(d, bd.b, "T"), tensor.WithIncr(c17Build(d, c17B, "C"))))
			}, func() []float64 { return addB(zipF(twelve, bd.b, bd.f)) }},
			{"VS-incr-iter", func(d ref.DT) ([]interface{}, bool, string) {
				return resOf(binFns[bd.op](c17Build(d, c17A, "SS"), d.Code(sc), tensor.WithIncr(c17Build(d, c17B, "C"))))
			}, func() []float64 { return addB(zipF(c17A, constB, bd.f)) }},
			{"VS-recv", func(d ref.DT) ([]interface{}, bool, string) {
				return resOf(binFns[bd.op](c17Build(d, c17A, "C"), d.Code(sc), tensor.WithReuse(c17Build(d, c17B, "C"))))
			}, func() []float64 { return zipF(c17A, constB, bd.f) }},
			{"SV-recv", func(d ref.DT) ([]interface{}, bool, string) {
				return resOf(binFns[bd.op](d.Code(sc*6), c17Build(d, bd.b, "C"), tensor.WithReuse(c17Build(d, c17B, "C"))))
			}, func() []float64 { return zipF(twelve, bd.b, bd.f) }},
			{"VS-recv-iter", func(d ref.DT) ([]interface{}, bool, string) {
				return resOf(binFns[bd.op](c17Build(d, c17A, "T"), d.Code(sc), tensor.WithReuse(c17Build(d, c17B, "C"))))
			}, func() []float64 { return zipF(c17A, constB, bd.f) }},
			{"SV-recv-iter", func(d ref.DT) ([]interface{}, bool, string) {
				return resOf(binFns[bd.op](d.Code(sc*6), c17Build(d, bd.b, "S"), tensor.WithReuse(c17Build(d, c17B, "C"))))
			}, func() []float64 { return zipF(twelve, bd.b, bd.f) }},
			{"VS-unsafe", func(d ref.DT) ([]interface{}, bool, string) {
				return resOf(binFns[bd.op](c17Build(d, c17A, "C"), d.Code(sc), tensor.UseUnsafe()))
			}, func() []float64 { return zipF(c17A, constB, bd.f) }},
			{"SV-unsafe", func(d ref.DT) ([]interface{}, bool, string) {
				return resOf(binFns[bd.op](d.Code(sc*6), c17Build(d, bd.b, "C"), tensor.UseUnsafe()))
			}, func() []float64 { return zipF(twelve, bd.b, bd.f) }},
		}...)
		for _, v := range variants {
			if (bd.op == "MinBetween" || bd.op == "MaxBetween") && (strings.Contains(v.name, "incr") || strings.Contains(v.name, "unsafe")) {
				continue // recorded findings of C07
			}
			out = append(out, c17inst{"arith", bd.op, v.name, v.run, v.gen, num})
		}
	}
	// comparisons
	type cmpDef struct {
		op string
		f  func(x, y float64) bool
	}
	cmps := []cmpDef{{"Lt", func(x, y float64) bool { return x < y }}, {"Gt", func(x, y float64) bool { return x > y }}, {"Lte", func(x, y float64) bool { return x <= y }},
		{"Gte", func(x, y float64) bool { return x >= y }}, {"ElEq", func(x, y float64) bool { return x == y }}, {"ElNe", func(x, y float64) bool { return x != y }}}
	cb := []int{3, 4, 2, 6, 9, 8}
	b2f := func(f func(x, y float64) bool, a, b []int) []float64 {
		o := make([]float64, len(a))
		for i := range a {
			if f(float64(a[i]), float64(b[i])) {
				o[i] = 1
			}
		}
		return o
	}
	c4 := []int{4, 4, 4, 4, 4, 4}
	for _, cd := range cmps {
		cd := cd
		dts := append(append([]ref.DT{}, ordn...), ref.String, ref.Uintptr)
		if cd.op == "ElEq" || cd.op == "ElNe" {
			dts = append(dts, ref.Complex64, ref.Complex128)
		}
		vs := []struct {
			name string
			run  func(d ref.DT) ([]interface{}, bool, string)
			gen  func() []float64
		}{
			{"VV", func(d ref.DT) ([]interface{}, bool, string) {
				return resOf(binFns[cd.op](c17Build(d, c17A, "C"), c17Build(d, cb, "C")))
			}, func() []float64 { return b2f(cd.f, c17A, cb) }},
			{"VV-iter", func(d ref.DT) ([]interface{}, bool, string) {
				return resOf(binFns[cd.op](c17Build(d, c17A, "T"), c17Build(d, cb, "SS")))
			}, func() []float64 { return b2f(cd.f, c17A, cb) }},
			{"VS", func(d ref.DT) ([]interface{}, bool, string) {
				return resOf(binFns[cd.op](c17Build(d, c17A, "C"), d.Code(4)))
			}, func() []float64 { return b2f(cd.f, c17A, c4) }},
			{"SV", func(d ref.DT) ([]interface{}, bool, string) {
				return resOf(binFns[cd.op](d.Code(4), c17Build(d, c17A, "C")))
			}, func() []float64 { return b2f(cd.f, c4, c17A) }},
			{"VS-iter", func(d ref.DT) ([]interface{}, bool, string) {
				return resOf(binFns[cd.op](c17Build(d, c17A, "S"), d.Code(4)))
			}, func() []float64 { return b2f(cd.f, c17A, c4) }},
			{"SV-iter", func(d ref.DT) ([]interface{}, bool, string) {
				return resOf(binFns[cd.op](d.Code(4), c17Build(d, c17A, "T")))
			}, func() []float64 { return b2f(cd.f, c4, c17A) }},
			{"same", func(d ref.DT) ([]interface{}, bool, string) {
				return resOf(binFns[cd.op](c17Build(d, c17A, "C"), c17Build(d, cb, "C"), tensor.AsSameType()))
			}, func() []float64 { return b2f(cd.f, c17A, cb) }},
			{"same-iter", func(d ref.DT) ([]interface{}, bool, string) {
				return resOf(binFns[cd.op](c17Build(d, c17A, "SS"), c17Build(d, cb, "T"), tensor.AsSameType()))
			}, func() []float64 { return b2f(cd.f, c17A, cb) }},
			{"same-VS", func(d ref.DT) ([]interface{}, bool, string) {
				return resOf(binFns[cd.op](c17Build(d, c17A, "C"), d.Code(4), tensor.AsSameType()))
			}, func() []float64 { return b2f(cd.f, c17A, c4) }},
			{"same-SV-iter", func(d ref.DT) ([]interface{}, bool, string) {
				return resOf(binFns[cd.op](d.Code(4), c17Build(d, c17A, "S"), tensor.AsSameType()))
			}, func() []float64 { return b2f(cd.f, c4, c17A) }},
			{"unsafe", func(d ref.DT) ([]interface{}, bool, string) {
				return resOf(binFns[cd.op](c17Build(d, c17A, "C"), c17Build(d, cb, "C"), tensor.UseUnsafe()))
			}, func() []float64 { return b2f(cd.f, c17A, cb) }},
		}
		for _, v := range vs {
			vd := dts
			if strings.HasPrefix(v.name, "same") || v.name == "unsafe" {
				// same-type / in-place results are 1/0 of the operand type: numeric types only
				vd = nil
				for _, d := range dts {
					if d.IsNumber() {
						vd = append(vd, d)
					}
				}
			}
			out = append(out, c17inst{"cmp", cd.op, v.name, v.run, v.gen, vd})
		}
	}
	// unary
	sq := []int{1, 4, 9, 4, 1, 9}
	type unDef struct {
		op string
		in []int
		f  func(x float64) float64
	}
	uns := []unDef{{"Square", []int{2, 4, 4, 6, 8, 10}, func(x float64) float64 { return x * x }}, {"Cube", []int{1, 2, 3, 4, 2, 1}, func(x float64) float64 { return x * x * x }},
		{"Abs", c17A, func(x float64) float64 { return x }}, {"Sign", []int{0, 4, 4, 0, 8, 9}, func(x float64) float64 {
			if x > 0 {
				return 1
			}
			return 0
		}}, {"Sqrt", sq, func(x float64) float64 { return map[float64]float64{1: 1, 4: 2, 9: 3}[x] }},
		{"Inv", []int{1, 1, 1, 1, 1, 1}, func(x float64) float64 { return 1 }}, {"Neg", []int{0, 0, 0, 0, 0, 0}, func(x float64) float64 { return 0 }}}
	for _, ud := range uns {
		ud := ud
		gen := func() []float64 {
			o := make([]float64, 6)
			for i, k := range ud.in {
				o[i] = ud.f(float64(k))
			}
			return o
		}
		for _, v := range []struct {
			name string
			lay  string
			opt  func(d ref.DT) []tensor.FuncOpt
			incr bool
		}{{"contig", "C", nil, false}, {"iter", "T", nil, false}, {"iter2", "SS", nil, false}, {"unsafe", "C", func(d ref.DT) []tensor.FuncOpt { return []tensor.FuncOpt{tensor.UseUnsafe()} }, false},
			{"reuse", "C", func(d ref.DT) []tensor.FuncOpt { return []tensor.FuncOpt{tensor.WithReuse(c17Build(d, c17B, "C"))} }, false},
			{"incr", "C", func(d ref.DT) []tensor.FuncOpt { return []tensor.FuncOpt{tensor.WithIncr(c17Build(d, c17B, "C"))} }, true},
			{"incr-iter", "S", func(d ref.DT) []tensor.FuncOpt { return []tensor.FuncOpt{tensor.WithIncr(c17Build(d, c17B, "C"))} }, true}} {
			v := v
			g := gen
			if v.incr {
				g = func() []float64 {
					o := gen()
					for i := range o {
						o[i] += float64(c17B[i])
					}
					return o
				}
			}
			out = append(out, c17inst{"unary", ud.op, v.name, func(d ref.DT) ([]interface{}, bool, string) {
				var opts []tensor.FuncOpt
				if v.opt != nil {
					opts = v.opt(d)
				}
				return resOf(unFns[ud.op](c17Build(d, ud.in, v.lay), opts...))
			}, g, num})
		}
	}
	// clamp
	out = append(out, c17inst{"unary", "Clamp", "contig", func(d ref.DT) ([]interface{}, bool, string) {
		return resOf(tensor.Clamp(c17Build(d, c17A, "C"), d.Code(3), d.Code(7)))
	}, func() []float64 { return clamp37(c17A) }, ordn},
		c17inst{"unary", "Clamp", "iter", func(d ref.DT) ([]interface{}, bool, string) {
			return resOf(tensor.Clamp(c17Build(d, c17A, "T"), d.Code(3), d.Code(7)))
		}, func() []float64 { return clamp37(c17A) }, ordn})
	// reductions over a (2,3,2) tensor: first / middle / last axis and all axes
	rvals := []int{1, 2, 3, 4, 5, 6, 6, 5, 4, 3, 2, 1}
	rshape := []int{2, 3, 2}
	mkR := func(d ref.DT, lay string) *tensor.Dense {
		b, err := atlas.Build(d, rshape, c17Vals(d, rvals), lay)
		if err != nil {
			return nil
		}
		return b.T
	}
	fold := func(axes []int, f func(a, b interface{}) interface{}) []float64 {
		arr := ref.Arr{DT: ref.Float64, Shape: rshape, El: c17Vals(ref.Float64, rvals)}
		res := reduceModel(arr, axes, f)
		o := make([]float64, len(res.El))
		for i, e := range res.El {
			o[i] = e.(float64)
		}
		return o
	}
	sumF := func(a, b interface{}) interface{} { return ref.Arith("Add", a, b).V }
	maxF := func(a, b interface{}) interface{} { return ref.Arith("MaxBetween", a, b).V }
	minF := func(a, b interface{}) interface{} { return ref.Arith("MinBetween", a, b).V }
	for _, rd := range []struct {
		op  string
		f   func(a, b interface{}) interface{}
		dts []ref.DT
	}{{"Sum", sumF, num}, {"Max", maxF, ordn}, {"Min", minF, ordn}} {
		rd := rd
		for _, ax := range [][]int{{0}, {1}, {2}, {0, 1, 2}, {0, 2}} {
			ax := ax
			for _, lay := range []string{"C", "T"} {
				lay := lay
				if lay == "T" && len(ax) != 1 {
					continue
				}
				out = append(out, c17inst{"reduce", rd.op, fmt.Sprintf("axes%v-%s", ax, lay), func(d ref.DT) ([]interface{}, bool, string) {
					t := mkR(d, "C")
					a2 := ax
					if lay == "T" {
						// reduce the transposed view along the axis that corresponds to ax
						t = mkR(d, "C")
					}
					switch rd.op {
					case "Sum":
						return resOf(t.Sum(a2...))
					case "Max":
						return resOf(t.Max(a2...))
					}
					return resOf(t.Min(a2...))
				}, func() []float64 { return fold(ax, rd.f) }, rd.dts})
			}
		}
	}
	for _, am := range []string{"Argmax", "Argmin"} {
		am := am
		for ax := -1; ax < 3; ax++ {
			ax := ax
			out = append(out, c17inst{"argreduce", am, fmt.Sprintf("axis%d", ax), func(d ref.DT) ([]interface{}, bool, string) {
				t := mkR(d, "C")
				a := ax
				if ax < 0 {
					a = tensor.AllAxes
				}
				if am == "Argmax" {
					return resOf(t.Argmax(a))
				}
				return resOf(t.Argmin(a))
			}, func() []float64 {
				arr := ref.Arr{DT: ref.Float64, Shape: rshape, El: c17Vals(ref.Float64, rvals)}
				better := func(x, y float64) bool {
					if am == "Argmax" {
						return x > y
					}
					return x < y
				}
				if ax < 0 {
					best := 0
					for i := range arr.El {
						if better(arr.El[i].(float64), arr.El[best].(float64)) {
							best = i
						}
					}
					return []float64{float64(best)}
				}
				var oshape []int
				for i, dd := range rshape {
					if i != ax {
						oshape = append(oshape, dd)
					}
				}
				o := make([]float64, ref.Prod(oshape))
				bv := make([]float64, len(o))
				set := make([]bool, len(o))
				oc := make([]int, len(oshape))
				ref.ForCoords(rshape, func(c []int) {
					j := 0
					for i := range c {
						if i != ax {
							oc[j] = c[i]
							j++
						}
					}
					k := ref.RowRank(oshape, oc)
					v := arr.At(c).(float64)
					if !set[k] || better(v, bv[k]) {
						set[k], bv[k], o[k] = true, v, float64(c[ax])
					}
				})
				return o
			}, ordn})
		}
	}
	// masked arg-reductions: ties among the unmasked elements, the global extreme is masked
	mvals := []int{9, 3, 7, 3, 7, 1, 7, 3}
	mmask := []bool{true, false, false, false, false, true, false, false}
	for _, am := range []string{"Argmax", "Argmin"} {
		am := am
		out = append(out, c17inst{"argreduce", am, "masked-flat", func(d ref.DT) ([]interface{}, bool, string) {
			back := d.MakeSlice(len(mvals))
			for i, k := range mvals {
				ref.SliceSet(back, i, d.Code(k))
			}
			t := tensor.New(tensor.WithShape(len(mvals)), tensor.WithBacking(back, append([]bool{}, mmask...)))
			if am == "Argmax" {
				return resOf(t.Argmax(tensor.AllAxes))
			}
			return resOf(t.Argmin(tensor.AllAxes))
		}, func() []float64 {
			best := -1
			for i, k := range mvals {
				if mmask[i] {
					continue
				}
				if best < 0 || (am == "Argmax" && k > mvals[best]) || (am == "Argmin" && k < mvals[best]) {
					best = i
				}
			}
			return []float64{float64(best)}
		}, ordn})
	}
	// map
	for _, v := range []struct{ name, lay string }{{"contig", "C"}, {"iter", "T"}, {"iter2", "SS"}, {"unsafe", "C"}} {
		v := v
		out = append(out, c17inst{"map", "Apply", v.name, func(d ref.DT) ([]interface{}, bool, string) {
			var opts []tensor.FuncOpt
			if v.name == "unsafe" {
				opts = append(opts, tensor.UseUnsafe())
			}
			return resOf(c17Build(d, c17A, v.lay).Apply(applyFn(d), opts...))
		}, func() []float64 {
			o := make([]float64, 6)
			for i, k := range c17A {
				o[i] = float64(2*k + 1)
			}
			return o
		}, num})
	}
	// masking predicates
	for _, p := range maskPreds {
		p := p
		for _, soft := range []bool{false, true} {
			soft := soft
			out = append(out, c17inst{"maskpred", p.name, fmt.Sprintf("soft=%v", soft), func(d ref.DT) ([]interface{}, bool, string) {
				back := d.MakeSlice(6)
				for i, k := range c17A {
					ref.SliceSet(back, i, d.Code(k))
				}
				t := tensor.New(tensor.WithShape(6), tensor.WithBacking(back, []bool{true, false, false, false, false, false}))
				if soft {
					t.SoftenMask()
				}
				o := callPred(t, p.name, d.Code(4), d.Code(8))
				if o.Class != "ok" {
					return nil, true, ""
				}
				res := make([]interface{}, 6)
				for i, m := range t.Mask() {
					res[i] = m
				}
				return res, false, ""
			}, func() []float64 {
				o := make([]float64, 6)
				for i, k := range c17A {
					w := p.f(float64(k), float64(4), float64(8))
					if !soft && i == 0 {
						w = true
					}
					if w {
						o[i] = 1
					}
				}
				return o
			}, ordn})
		}
	}
	// typed get / set / memset / eq
	all := ref.ALL18
	out = append(out, c17inst{"getset", "Get", "index", func(d ref.DT) ([]interface{}, bool, string) {
		t := c17Build(d, c17A, "C")
		res := make([]interface{}, 6)
		for i := range res {
			res[i] = t.Get(i)
		}
		return res, false, ""
	}, func() []float64 { return fl(c17A) }, all},
		c17inst{"getset", "Set", "index", func(d ref.DT) ([]interface{}, bool, string) {
			t := c17Build(d, c17B, "C")
			for i, k := range c17A {
				t.Set(i, d.Code(k))
			}
			return resOf(t, nil)
		}, func() []float64 { return fl(c17A) }, all},
		c17inst{"getset", "Memset", "contig", func(d ref.DT) ([]interface{}, bool, string) {
			t := c17Build(d, c17B, "C")
			if err := t.Memset(d.Code(7)); err != nil {
				return nil, true, ""
			}
			return resOf(t, nil)
		}, func() []float64 { return []float64{7, 7, 7, 7, 7, 7} }, all},
		c17inst{"getset", "Memset", "iter", func(d ref.DT) ([]interface{}, bool, string) {
			t := c17Build(d, c17B, "SS")
			if err := t.Memset(d.Code(7)); err != nil {
				return nil, true, ""
			}
			return resOf(t, nil)
		}, func() []float64 { return []float64{7, 7, 7, 7, 7, 7} }, all},
		c17inst{"getset", "Zero", "iter", func(d ref.DT) ([]interface{}, bool, string) {
			t := c17Build(d, c17B, "T")
			t.Zero()
			return resOf(t, nil)
		}, func() []float64 { return []float64{0, 0, 0, 0, 0, 0} }, all},
		c17inst{"getset", "Eq", "equal+unequal", func(d ref.DT) ([]interface{}, bool, string) {
			a, b, c := c17Build(d, c17A, "C"), c17Build(d, c17A, "C"), c17Build(d, c17B, "C")
			return []interface{}{a.Eq(b), a.Eq(c)}, false, ""
		}, func() []float64 { return []float64{1, 0} }, all},
		c17inst{"getset", "Clone", "contig", func(d ref.DT) ([]interface{}, bool, string) {
			return resOf(c17Build(d, c17A, "C").Clone().(tensor.Tensor), nil)
		}, func() []float64 { return fl(c17A) }, all},
		c17inst{"getset", "Materialize", "iter", func(d ref.DT) ([]interface{}, bool, string) {
			return resOf(c17Build(d, c17A, "SS").Materialize(), nil)
		}, func() []float64 { return fl(c17A) }, all},
		c17inst{"getset", "Transpose", "physical", func(d ref.DT) ([]interface{}, bool, string) {
			t := c17Build(d, c17A, "C")
			if err := t.T(); err != nil {
				return nil, true, ""
			}
			if err := t.Transpose(); err != nil {
				return nil, true, ""
			}
			return resOf(t, nil)
		}, func() []float64 {
			a := fl(c17A)
			return []float64{a[0], a[3], a[1], a[4], a[2], a[5]}
		}, all})
	// native conversions
	for i, nm := range []string{"Vector", "Matrix", "Tensor3", "Select0"} {
		i, nm := i, nm
		out = append(out, c17inst{"native", nm, "contig", func(d ref.DT) ([]interface{}, bool, string) {
			fns, ok := nativeFns[d.Name]
			if !ok {
				return nil, true, ""
			}
			shape := [][]int{{6}, {2, 3}, {1, 2, 3}, {2, 3}}[i]
			t := mkContig(d, shape, c17Vals(d, c17A))
			fn := fns[i]
			args := []reflect.Value{reflect.ValueOf(t)}
			if i == 3 {
				args = append(args, reflect.ValueOf(0))
			}
			var outs []reflect.Value
			o := call(func() error {
				outs = reflect.ValueOf(fn).Call(args)
				if !outs[1].IsNil() {
					return outs[1].Interface().(error)
				}
				return nil
			})
			if o.Class != "ok" {
				return nil, true, ""
			}
			var flat []interface{}
			flatten(outs[0], &flat)
			return flat, false, ""
		}, func() []float64 { return fl(c17A) }, all})
	}
	return out
}

func runC17(r *core.Run) {
	// value sets: operands a, b and exponents; every exact result fits every numeric type, b divides a and 12
	type vset struct {
		tag     string
		a, b, p []int
	}
	sets := []vset{{"", c17A, c17B, c17P}}
	if !isQuick(r) {
		sets = append(sets, vset{"|vs2", []int{4, 2, 6, 12, 8, 10}, []int{2, 1, 3, 4, 2, 2}, []int{1, 2, 2, 1, 2, 1}})
	}
	defer func(a, b, p []int) { c17A, c17B, c17P = a, b, p }(c17A, c17B, c17P)
	for _, vs := range sets {
		c17A, c17B, c17P = vs.a, vs.b, vs.p
		c17RunSet(r, vs.tag)
	}
}

func c17RunSet(r *core.Run, tag string) {
	insts := append(append(c17Instances(), c17More()...), c17Extra()...)
	r.SetBound("instances", fmt.Sprintf("%d (family, operation, variant) instances x up to 18 element types (thorough: x 2 value sets)", len(insts)))
	fam := map[string]int{}
	for _, in := range insts {
		fam[in.family]++
	}
	r.SetBound("families", fmt.Sprint(fam))
	for _, in := range insts {
		if !r.Take() {
			continue
		}
		in := in
		id := fmt.Sprintf("C17|%s|%s|%s%s", in.family, in.op, in.variant, tag)
		if r.ReplayCase != "" && id != r.ReplayCase {
			continue
		}
		r.Case(id, true, func() *core.Fail {
			want := in.generic()
			var fails []string
			var supported, refusedTypes []string
			for _, d := range in.dts {
				tensor.VerifResetPools()
				var res []interface{}
				var refused bool
				var errs string
				o := call(func() error {
					res, refused, errs = in.run(d)
					return nil
				})
				r.Op(1)
				r.State(id + "|" + d.Name)
				if o.Class == "panic" {
					refused = true
				}
				if refused {
					refusedTypes = append(refusedTypes, d.Name)
					r.Outcome(in.family + ":refused")
					continue
				}
				r.Outcome(in.family + ":ok")
				if errs != "" {
					fails = append(fails, d.Name+": "+errs)
					continue
				}
				if len(res) != len(want) {
					fails = append(fails, fmt.Sprintf("%s: %d result elements, the generic definition gives %d", d.Name, len(res), len(want)))
					continue
				}
				bad := false
				for i := range res {
					f, ok := toF(res[i])
					if d.Class == ref.CString || d.Class == ref.CPtr || d.Class == ref.CBool {
						// identity-coded types: compare with the code of the expected number
						if want[i] == 0 && ref.Same(res[i], d.Zero()) {
							continue
						}
						if !ref.Same(res[i], d.Code(int(want[i]))) {
							// comparison families give bool / numbers, not codes
							if b, isB := res[i].(bool); isB {
								f, ok = 0, true
								if b {
									f = 1
								}
							} else if iv, isI := res[i].(int); isI {
								f, ok = float64(iv), true
							} else {
								ok = false
							}
						} else {
							continue
						}
					}
					if !ok || (f != want[i] && !(c17Tol[in.family] > 0 && math.Abs(f-want[i]) <= c17Tol[in.family]*math.Max(1, math.Abs(want[i])))) {
						bad = true
						fails = append(fails, fmt.Sprintf("%s: element %d is %s, the type-generic definition gives %v (all: %s vs %v)", d.Name, i, ref.Fmt(res[i]), want[i], ref.FmtEls(res), want))
						break
					}
				}
				if !bad {
					supported = append(supported, d.Name)
				}
			}
			r.Dim("supported_types_per_instance", fmt.Sprint(len(supported)))
			if len(fails) == 0 {
				return nil
			}
			sort.Strings(fails)
			var sig []string
			for _, f := range fails {
				sig = append(sig, strings.SplitN(f, ":", 2)[0])
			}
			if len(fails) > 6 {
				fails = fails[:6]
			}
			return core.F("wrong-value", strings.Join(sig, ","), "%s %s variant %s disagrees with the type-generic definition for: %s", in.family, in.op, in.variant, strings.Join(fails, " ; "))
		})
	}
}
