package props

import (
	"fmt"
	"strings"

	"gorgonia.org/tensor"
	"verifharness/atlas"
	"verifharness/core"
	"verifharness/ref"
)

func init() {
	register(&Def{ID: "C20", Engine: "E1", Run: runC20, Configs: []string{"noasm", "inplacetranspose"},
		Rule: "the whole driver is built and run three times (default tags, -tags noasm, -tags inplacetranspose); in every build, for engines {StdEng, Float32Engine, Float64Engine} attached to every operand and destination: arithmetic (Add/Sub/Mul/Div), fused multiply-add with tensor and scalar multiplier, Inner/MatVecMul/MatMul/Outer, in modes {safe, unsafe, reuse, incr, unsafe+reuse, unsafe+incr} and operand layouts {contiguous, lazily transposed, sliced, step-sliced}; operands of an element type the specialised engine is not made for (float32/float64/int32/int64 in every pairing: refused wherever StdEng refuses, equal wherever both accept); transposes (every permutation, T+Transpose, SafeT, tensor.Transpose) of 6 element widths; index arithmetic (divmod for every a in [-40,200], b in [1,17]; Itol/Ltoi round trips; TransposeIndex/UntransposeIndex; BitMap over every index <= 200). " +
			"oracle: the configuration-independent reference model (so all configurations agree with each other by transitivity) plus a direct comparison of each specialised engine with StdEng on the same inputs (values, returned-tensor identity class, effect on operands/destination). one case = one tuple under one configuration; non-trivial = >= 2 elements",
		Assume: []string{"the reference model is the same in every build; bit-exact agreement is required for +,-,*,/ and integer index arithmetic, tolerance only for products with fractional inputs"}})
}

type engSpec struct {
	name string
	e    tensor.Engine
	dts  []ref.DT
}

func engines() []engSpec {
	return []engSpec{
		{"StdEng", tensor.StdEng{}, []ref.DT{ref.Float32, ref.Float64}},
		{"Float32Engine", tensor.Float32Engine{}, []ref.DT{ref.Float32}},
		{"Float64Engine", tensor.Float64Engine{}, []ref.DT{ref.Float64}},
	}
}

// mkEng builds a tensor with the given engine, logical values and layout (C, T, S, SS); returns the tensor, the root
// backing and the cells of the logical elements.
func mkEng(d ref.DT, e tensor.Engine, shape []int, vals []interface{}, lay string) (t *tensor.Dense, root interface{}, cells []int, ok bool) {
	defer func() {
		if p := recover(); p != nil {
			ok = false
		}
	}()
	rank := len(shape)
	var rs []int
	var view ref.View
	switch lay {
	case "C":
		rs = shape
		view = ref.RootC(rs)
	case "F": // contiguous column-major
		if rank < 2 {
			return nil, nil, nil, false
		}
		rs = shape
		view = ref.RootF(rs)
		root = d.MakeSlice(ref.Prod(rs))
		t = tensor.New(tensor.WithShape(rs...), tensor.WithBacking(root), tensor.AsFortran(nil), tensor.WithEngine(e))
	case "T":
		if rank < 2 {
			return nil, nil, nil, false
		}
		rs = rev(shape)
		view = ref.RootC(rs).Permute(ref.Reversal(rank))
	case "S", "SS":
		rs = make([]int, rank)
		sl := make([]ref.Sl, rank)
		for i, n := range shape {
			switch {
			case n == 1:
				rs[i], sl[i] = 1, ref.Sl{Nil: true}
			case lay == "S":
				rs[i], sl[i] = n+2, ref.Sl{Start: 1, End: n + 1, Step: 1}
			default:
				rs[i], sl[i] = 2*n, ref.Sl{Start: 0, End: 2 * n, Step: 2}
			}
		}
		view, _, _ = ref.RootC(rs).Slice(sl)
		root = d.MakeSlice(ref.Prod(rs))
		rt := tensor.New(tensor.WithShape(rs...), tensor.WithBacking(root), tensor.WithEngine(e))
		v, err := rt.Slice(atlas.ToSlices(sl)...)
		if err != nil {
			return nil, nil, nil, false
		}
		t = v.(*tensor.Dense)
		if !ref.EqInts(t.Shape(), shape) {
			return nil, nil, nil, false
		}
	}
	if t == nil {
		root = d.MakeSlice(ref.Prod(rs))
		t = tensor.New(tensor.WithShape(rs...), tensor.WithBacking(root), tensor.WithEngine(e))
		if lay == "T" {
			if err := t.T(); err != nil {
				return nil, nil, nil, false
			}
		}
	}
	n := ref.SliceLen(root)
	for c := 0; c < n; c++ {
		ref.SliceSet(root, c, atlas.Poison(d, c))
	}
	for i, c := range view.Cell {
		ref.SliceSet(root, c, vals[i])
	}
	return t, root, view.Cell, true
}

func rev(s []int) []int {
	o := make([]int, len(s))
	for i := range s {
		o[i] = s[len(s)-1-i]
	}
	return o
}

type c20obs struct {
	class string
	vals  []interface{}
	ident string // which tensor was returned: fresh | a | b | dst
	shape string // shape of the returned tensor
	aAft  []interface{}
	bAft  []interface{}
	dAft  []interface{}
}

func rootVals(root interface{}) []interface{} {
	n := ref.SliceLen(root)
	out := make([]interface{}, n)
	for i := range out {
		out[i] = ref.SliceGet(root, i)
	}
	return out
}

func sameVals(a, b []interface{}) bool {
	if len(a) != len(b) {
		return false
	}
	for i := range a {
		if !ref.Same(a[i], b[i]) {
			return false
		}
	}
	return true
}

// c20Arith runs op(a,b) (or FMA) with the given engine and returns the observation.
func c20Arith(d ref.DT, e tensor.Engine, op string, shape []int, la, lb, mode string, av, bv, dv []interface{}, scalar interface{}) (c20obs, bool) {
	A, rootA, _, ok := mkEng(d, e, shape, av, la)
	if !ok {
		return c20obs{}, false
	}
	B, rootB, _, ok := mkEng(d, e, shape, bv, lb)
	if !ok {
		return c20obs{}, false
	}
	var D *tensor.Dense
	var rootD interface{}
	var opts []tensor.FuncOpt
	needD := mode == "reuse" || mode == "incr" || mode == "unsafe+reuse" || mode == "unsafe+incr" || strings.HasPrefix(mode, "reuse:") || strings.HasPrefix(mode, "incr:") || op == "FMA" || op == "FMAScalar"
	_ = needD
	if needD {
		dl := "C"
		if strings.HasSuffix(mode, ":S") {
			dl = "S"
		}
		ds := shape
		if strings.HasSuffix(mode, ":rs") || mode == "fma:yrs" {
			// a destination of the same size but another shape (the reversed one)
			ds = rev(shape)
			if ref.EqInts(ds, shape) {
				return c20obs{}, false
			}
		}
		if strings.HasSuffix(mode, ":F") {
			dl = "F"
		}
		D, rootD, _, ok = mkEng(d, e, ds, dv, dl)
		if !ok {
			return c20obs{}, false
		}
		if strings.HasSuffix(mode, ":M") {
			// a contiguous destination that carries a mask (every second element masked)
			n := ref.Prod(ds)
			root := d.MakeSlice(n)
			mk := make([]bool, n)
			for i := 0; i < n; i++ {
				ref.SliceSet(root, i, dv[i])
				mk[i] = i%2 == 1
			}
			D = tensor.New(tensor.WithShape(ds...), tensor.WithBacking(root, mk), tensor.WithEngine(e))
			rootD = root
		}
	}
	if mode == "mismatch" || mode == "fma:xrs" {
		// operand b of the same size but another shape (the reversed one): a shape mismatch
		rs := make([]int, len(shape))
		for i := range shape {
			rs[i] = shape[len(shape)-1-i]
		}
		if ref.EqInts(rs, shape) {
			return c20obs{}, false
		}
		B, rootB, _, ok = mkEng(d, e, rs, bv, lb)
		if !ok {
			return c20obs{}, false
		}
	}
	switch {
	case mode == "unsafe+reuse" || mode == "unsafe+incr":
		// two options given together: which one wins is the default engine's decision, the others follow it
		opts = append(opts, tensor.UseUnsafe())
		if mode == "unsafe+reuse" {
			opts = append(opts, tensor.WithReuse(D))
		} else {
			opts = append(opts, tensor.WithIncr(D))
		}
	case mode == "unsafe":
		opts = append(opts, tensor.UseUnsafe())
	case mode == "reuse=a":
		opts = append(opts, tensor.WithReuse(A))
	case mode == "reuse=b":
		opts = append(opts, tensor.WithReuse(B))
	case mode == "reuse=bv" || mode == "reuse=av":
		// the destination is a DIFFERENT *Dense over the same storage as an operand (a whole-tensor view of it)
		src := B
		if mode == "reuse=av" {
			src = A
		}
		v, err := src.Slice(nil)
		if err != nil {
			return c20obs{}, false
		}
		D = v.(*tensor.Dense)
		opts = append(opts, tensor.WithReuse(D))
	case strings.HasPrefix(mode, "reuse"):
		opts = append(opts, tensor.WithReuse(D))
	case strings.HasPrefix(mode, "incr"):
		opts = append(opts, tensor.WithIncr(D))
	}
	var res tensor.Tensor
	o := call(func() (err error) {
		switch op {
		case "FMA":
			res, err = tensor.FMA(A, B, D)
		case "FMAScalar":
			res, err = tensor.FMA(A, scalar, D)
		default:
			res, err = binFns[op](A, B, opts...)
		}
		return
	})
	ob := c20obs{class: o.Class, aAft: rootVals(rootA), bAft: rootVals(rootB)}
	if rootD != nil {
		ob.dAft = rootVals(rootD)
	}
	if o.Class == "ok" {
		rd, _ := res.(*tensor.Dense)
		if rd == nil {
			ob.class = "nil"
			return ob, true
		}
		switch {
		case rd == A:
			ob.ident = "a"
		case rd == B:
			ob.ident = "b"
		case D != nil && rd == D:
			ob.ident = "dst"
		default:
			ob.ident = "fresh"
		}
		v, err := atlas.Logical(rd)
		if err != nil {
			ob.class = "unreadable"
		}
		ob.vals = v
		ob.shape = fmt.Sprint(rd.Shape())
	}
	return ob, true
}

func runC20(r *core.Run) {
	quick := isQuick(r)
	shapes := [][]int{{3}, {2, 3}, {3, 1}, {2, 1, 3}, {2, 2, 2}}
	if !quick {
		shapes = append(shapes, []int{4, 3}, []int{1, 3}, []int{2, 3, 2}, []int{2, 2, 2, 2})
	}
	lays := []string{"C", "T", "S", "SS"}
	r.SetBound("shapes", fmt.Sprint(shapes))
	r.SetBound("configuration", "this worker: build tags '"+r.Config+"'")
	// ---------------- arithmetic and FMA under each engine
	for _, es := range engines() {
		for _, d := range es.dts {
			for _, shape := range shapes {
				if !r.Take() {
					continue
				}
				if r.Expired() {
					return
				}
				n := ref.Prod(shape)
				av, bv, sv := ewVals(d, n, "id")
				dv := make([]interface{}, n)
				for i := range dv {
					dv[i] = d.Code(i%4 + 1)
				}
				for _, op := range []string{"Add", "Sub", "Mul", "Div", "FMA", "FMAScalar"} {
					modes := []string{"safe", "unsafe", "reuse", "incr"}
					if op == "FMA" || op == "FMAScalar" {
						modes = []string{"fma", "fma:S"}
					}
					for _, mode := range modes {
						for _, la := range lays {
							for _, lb := range lays {
								if op == "FMAScalar" && lb != "C" {
									continue
								}
								es, d, shape, op, mode, la, lb := es, d, shape, op, mode, la, lb
								id := fmt.Sprintf("C20|arith|%s|%s|%s|%s|%s|a=%s|b=%s", es.name, op, d.Name, shapeStr(shape), mode, la, lb)
								if r.ReplayCase != "" && id != r.ReplayCase {
									continue
								}
								r.Case(id, n >= 2, func() *core.Fail {
									tensor.VerifResetPools()
									ob, ok := c20Arith(d, es.e, op, shape, la, lb, mode, av, bv, dv, sv)
									if !ok {
										r.Dim("skipped", "layout")
										return nil
									}
									r.Op(1)
									r.State(fmt.Sprintf("%s|%s|%s|%s|%s|%s", es.name, d.Name, shapeStr(shape), la, lb, mode))
									r.Outcome("arith:" + es.name + ":" + ob.class)
									// reference model
									want := make([]interface{}, n)
									for i := 0; i < n; i++ {
										switch op {
										case "FMA":
											want[i] = ref.Arith("Add", dv[i], ref.Arith("Mul", av[i], bv[i]).V).V
										case "FMAScalar":
											want[i] = ref.Arith("Add", dv[i], ref.Arith("Mul", av[i], sv).V).V
										default:
											want[i] = ref.Arith(op, av[i], bv[i]).V
											if mode == "incr" {
												want[i] = ref.Arith("Add", dv[i], want[i]).V
											}
										}
									}
									if ob.class != "ok" {
										// a configuration may refuse; but then the default engine must refuse too (drop-in replacement)
										if es.name != "StdEng" {
											tensor.VerifResetPools()
											std, _ := c20Arith(d, tensor.StdEng{}, op, shape, la, lb, mode, av, bv, dv, sv)
											if std.class == "ok" {
												return core.F("config-divergence", "refuse", "%s refuses (%s) what StdEng computes", es.name, ob.class)
											}
										}
										return nil
									}
									for i := range want {
										if i >= len(ob.vals) || (!ref.Same(ob.vals[i], want[i]) && !ref.Close(ob.vals[i], want[i])) {
											return core.F("wrong-value", fmt.Sprintf("el%d", i), "%s %s mode %s layouts %s,%s under %s: got %s, reference %s", op, d.Name, mode, la, lb, es.name, ref.FmtEls(ob.vals), ref.FmtEls(want))
										}
									}
									// drop-in: same identity class and same effect on operands as StdEng
									if es.name != "StdEng" {
										tensor.VerifResetPools()
										std, _ := c20Arith(d, tensor.StdEng{}, op, shape, la, lb, mode, av, bv, dv, sv)
										if std.class == "ok" {
											if std.ident != ob.ident {
												return core.F("config-divergence", "ident", "%s returns the %s tensor, StdEng the %s tensor", es.name, ob.ident, std.ident)
											}
											if !sameVals(std.aAft, ob.aAft) || !sameVals(std.bAft, ob.bAft) {
												return core.F("config-divergence", "operands", "%s leaves the operands in a different state than StdEng", es.name)
											}
											if !sameVals(std.dAft, ob.dAft) {
												return core.F("config-divergence", "dest", "%s leaves the destination's storage in a different state than StdEng: %s vs %s", es.name, ref.FmtEls(ob.dAft), ref.FmtEls(std.dAft))
											}
										}
									}
									return nil
								})
							}
						}
					}
				}
			}
		}
	}
	// ---------------- drop-in replacement on the rest of C07's matrix: a reuse tensor that aliases an operand, and operands
	// whose shapes do not fit - judged differentially against StdEng only (whether StdEng itself is right there is C06/C07's
	// question and partly a recorded finding)
	for _, es := range engines() {
		if es.name == "StdEng" {
			continue
		}
		for _, d := range es.dts {
			for _, shape := range shapes {
				if !r.Take() {
					continue
				}
				n := ref.Prod(shape)
				av, bv, _ := ewVals(d, n, "id")
				// fused multiply-add with special scalars (0, -1, 2) over operands with infinities, NaN and signed zeros
				ev, _, _ := ewVals(d, n, "edge")
				dvv := make([]interface{}, n)
				for i := range dvv {
					dvv[i] = d.Code(i%4 + 1)
				}
				for _, k := range []int{0, -1, 2} {
					for _, la := range lays {
						es, d, shape, k, la := es, d, shape, k, la
						id := fmt.Sprintf("C20|arith|%s|FMAScalar|%s|%s|edge*%d|a=%s|b=C", es.name, d.Name, shapeStr(shape), k, la)
						if r.ReplayCase != "" && id != r.ReplayCase {
							continue
						}
						r.Case(id, n >= 2, func() *core.Fail {
							tensor.VerifResetPools()
							ob, ok := c20Arith(d, es.e, "FMAScalar", shape, la, "C", "fma", ev, ev, dvv, d.Code(k))
							if !ok {
								return nil
							}
							tensor.VerifResetPools()
							std, _ := c20Arith(d, tensor.StdEng{}, "FMAScalar", shape, la, "C", "fma", ev, ev, dvv, d.Code(k))
							r.Op(2)
							r.Outcome("fma-edge:" + es.name + ":" + ob.class + "/" + std.class)
							if ob.class != std.class {
								return core.F("config-divergence", "class", "FMA(a, %d, y) on edge values: %s %s, StdEng %s", k, es.name, ob.class, std.class)
							}
							if ob.class == "ok" && (!sameVals(std.vals, ob.vals) || !sameVals(std.dAft, ob.dAft)) {
								return core.F("config-divergence", "values", "FMA(a, %d, y) with a = %s: %s delivers %s, StdEng %s", k, ref.FmtEls(ev), es.name, ref.FmtEls(ob.vals), ref.FmtEls(std.vals))
							}
							return nil
						})
					}
				}
				// fused multiply-add on values where ONE rounding of a*x+y differs from the product rounded first (the default
				// engine rounds twice): exact agreement with StdEng, for FMA and the scalar form, on the fast path and the others
				if d.IsFloat() {
					u := float64(uint64(1)<<27 + 1)
					if d.Name == "float32" {
						u = float64(1<<12 + 1)
					}
					fa, fx, fy := make([]interface{}, n), make([]interface{}, n), make([]interface{}, n)
					for i := 0; i < n; i++ {
						switch i % 3 {
						case 0:
							fa[i], fx[i] = ref.FromFloat(d, u), ref.FromFloat(d, u)
							fy[i] = ref.Arith("Sub", ref.FromFloat(d, 0), ref.Arith("Mul", fa[i], fx[i]).V).V // -(a*x rounded)
						case 1:
							fa[i], fx[i], fy[i] = ref.FromFloat(d, 0.1), ref.FromFloat(d, 0.3), ref.FromFloat(d, -0.03)
						default:
							fa[i], fx[i], fy[i] = ref.FromFloat(d, 3), ref.FromFloat(d, 1.0/3), ref.FromFloat(d, -1)
						}
					}
					for _, op := range []string{"FMA", "FMAScalar"} {
						for _, la := range lays {
							for _, mode := range []string{"fma", "fma:S"} {
								es, d, shape, op, la, mode := es, d, shape, op, la, mode
								id := fmt.Sprintf("C20|arith|%s|%s|%s|%s|fused|%s|a=%s|b=C", es.name, op, d.Name, shapeStr(shape), mode, la)
								if r.ReplayCase != "" && id != r.ReplayCase {
									continue
								}
								r.Case(id, n >= 2, func() *core.Fail {
									tensor.VerifResetPools()
									ob, ok := c20Arith(d, es.e, op, shape, la, "C", mode, fa, fx, fy, fx[0])
									if !ok {
										return nil
									}
									tensor.VerifResetPools()
									std, _ := c20Arith(d, tensor.StdEng{}, op, shape, la, "C", mode, fa, fx, fy, fx[0])
									r.Op(2)
									if ob.class != "ok" && std.class == "ok" {
										return core.F("config-divergence", "class", "%s on rounding-sensitive values: %s %s, StdEng %s", op, es.name, ob.class, std.class)
									}
									if std.class != "ok" {
										return nil // a destination the default engine refuses (recorded under C07): nothing to agree with
									}
									if ob.class == "ok" && (!sameVals(std.vals, ob.vals) || !sameVals(std.dAft, ob.dAft)) {
										return core.F("config-divergence", "values", "%s(a, x, y) %s layouts %s,C mode %s with a = %s, x = %s, y = %s: %s delivers %s, StdEng %s (one rounding instead of two?)", op, d.Name, la, mode, ref.FmtEls(fa), ref.FmtEls(fx), ref.FmtEls(fy), es.name, ref.FmtEls(ob.vals), ref.FmtEls(std.vals))
									}
									return nil
								})
							}
						}
					}
				}
				laysF := append(append([]string{}, lays...), "F")
				for _, op := range []string{"Add", "Sub", "Mul", "Div", "FMA", "FMAScalar"} {
					dmodes := []string{"reuse=a", "reuse=b", "reuse=av", "reuse=bv", "mismatch", "reuse:rs", "incr:rs", "reuse:F", "incr:F", "reuse:M", "incr:M", "unsafe+reuse", "unsafe+incr"}
					if op == "FMA" {
						dmodes = []string{"fma:xrs", "fma:yrs", "fma:F", "fma", "fma:M"}
					}
					if op == "FMAScalar" {
						dmodes = []string{"fma:yrs", "fma:F", "fma", "fma:M"}
					}
					for _, mode := range append(dmodes, "safe", "unsafe", "reuse", "incr") {
						for _, la := range laysF {
							for _, lb := range laysF {
								if (mode == "safe" || mode == "unsafe" || mode == "reuse" || mode == "incr" || mode == "fma") && la != "F" && lb != "F" {
									continue // judged against the reference model above
								}
								if (op == "FMA" || op == "FMAScalar") && (mode == "safe" || mode == "unsafe" || mode == "reuse" || mode == "incr") {
									continue
								}
								if op == "FMAScalar" && lb != "C" {
									continue // there is no second tensor operand
								}
								es, d, shape, op, mode, la, lb := es, d, shape, op, mode, la, lb
								id := fmt.Sprintf("C20|arith|%s|%s|%s|%s|%s|a=%s|b=%s", es.name, op, d.Name, shapeStr(shape), mode, la, lb)
								if r.ReplayCase != "" && id != r.ReplayCase {
									continue
								}
								r.Case(id, n >= 2, func() *core.Fail {
									tensor.VerifResetPools()
									ob, ok := c20Arith(d, es.e, op, shape, la, lb, mode, av, bv, dvv, d.Code(2))
									if !ok {
										r.Dim("skipped", "layout")
										return nil
									}
									tensor.VerifResetPools()
									std, _ := c20Arith(d, tensor.StdEng{}, op, shape, la, lb, mode, av, bv, dvv, d.Code(2))
									r.Op(2)
									r.Outcome("arith-diff:" + es.name + ":" + ob.class + "/" + std.class)
									if (ob.class == "ok") != (std.class == "ok") {
										return core.F("config-divergence", "class", "%s %s mode %s layouts %s,%s: %s %s, StdEng %s", op, d.Name, mode, la, lb, es.name, ob.class, std.class)
									}
									if ob.class != "ok" {
										if !sameVals(std.aAft, ob.aAft) || !sameVals(std.bAft, ob.bAft) {
											return core.F("config-divergence", "operands-after-refusal", "%s and StdEng both refuse but leave the operands in different states", es.name)
										}
										return nil
									}
									if std.ident != ob.ident {
										return core.F("config-divergence", "ident", "%s returns the %s tensor, StdEng the %s tensor", es.name, ob.ident, std.ident)
									}
									if std.shape != ob.shape {
										return core.F("config-divergence", "shape", "%s %s mode %s layouts %s,%s: %s returns shape %s, StdEng %s", op, d.Name, mode, la, lb, es.name, ob.shape, std.shape)
									}
									if !sameVals(std.vals, ob.vals) {
										return core.F("config-divergence", "values", "%s %s mode %s layouts %s,%s: %s delivers %s, StdEng %s", op, d.Name, mode, la, lb, es.name, ref.FmtEls(ob.vals), ref.FmtEls(std.vals))
									}
									if !sameVals(std.aAft, ob.aAft) || !sameVals(std.bAft, ob.bAft) {
										return core.F("config-divergence", "operands", "%s leaves the operands in a different state than StdEng", es.name)
									}
									if !sameVals(std.dAft, ob.dAft) {
										return core.F("config-divergence", "dest", "%s %s mode %s layouts %s,%s: %s leaves the destination's storage in a different state than StdEng: %s vs %s", op, d.Name, mode, la, lb, es.name, ref.FmtEls(ob.dAft), ref.FmtEls(std.dAft))
									}
									return nil
								})
							}
						}
					}
				}
			}
		}
	}
	// ---------------- products under each engine
	for _, es := range engines() {
		for _, d := range es.dts {
			for _, la := range lays {
				for _, lb := range lays {
					if !r.Take() {
						continue
					}
					for m := 1; m <= 3; m++ {
						for k := 1; k <= 3; k++ {
							type pc struct {
								op     string
								sa, sb []int
							}
							cases := []pc{{"Inner", []int{k}, []int{k}}, {"MatVecMul", []int{m, k}, []int{k}}, {"Outer", []int{m}, []int{k}}}
							for nn := 1; nn <= 3; nn++ {
								cases = append(cases, pc{"MatMul", []int{m, k}, []int{k, nn}})
							}
							for _, c := range cases {
								es, d, la, lb, c := es, d, la, lb, c
								id := fmt.Sprintf("C20|linalg|%s|%s|%s|%s|%s|a=%s|b=%s", es.name, c.op, d.Name, shapeStr(c.sa), shapeStr(c.sb), la, lb)
								if r.ReplayCase != "" && id != r.ReplayCase {
									continue
								}
								r.Case(id, true, func() *core.Fail {
									tensor.VerifResetPools()
									av := dotVals(d, ref.Prod(c.sa), "int", 1)
									bv := dotVals(d, ref.Prod(c.sb), "int", 2)
									A, rootA, _, ok1 := mkEng(d, es.e, c.sa, av, la)
									B, rootB, _, ok2 := mkEng(d, es.e, c.sb, bv, lb)
									if !ok1 || !ok2 {
										return nil
									}
									a0, b0 := rootVals(rootA), rootVals(rootB)
									var res *tensor.Dense
									var sres interface{}
									o := call(func() (e error) {
										switch c.op {
										case "Inner":
											sres, e = A.Inner(B)
										case "MatVecMul":
											res, e = A.MatVecMul(B)
										case "MatMul":
											res, e = A.MatMul(B)
										case "Outer":
											res, e = A.Outer(B)
										}
										return
									})
									r.Op(1)
									r.Outcome("linalg:" + es.name + ":" + o.Class)
									if !sameVals(a0, rootVals(rootA)) || !sameVals(b0, rootVals(rootB)) {
										return core.F("operand-changed", "ops", "%s under %s changed an operand", c.op, es.name)
									}
									if o.Class != "ok" {
										return nil
									}
									arrA := ref.Arr{DT: d, Shape: c.sa, El: av}
									arrB := ref.Arr{DT: d, Shape: c.sb, El: bv}
									var want ref.Arr
									switch c.op {
									case "Inner":
										want = contract(arrA, arrB, []int{0}, []int{0})
										if !ref.Same(sres, want.El[0]) {
											return core.F("wrong-value", "s", "Inner under %s = %s, reference %s", es.name, ref.Fmt(sres), ref.Fmt(want.El[0]))
										}
										return nil
									case "MatVecMul":
										want = contract(arrA, arrB, []int{1}, []int{0})
									case "MatMul":
										want = contract(arrA, arrB, []int{1}, []int{0})
									case "Outer":
										want = contract(arrA, arrB, nil, nil)
									}
									return cmpArr(res, want, fmt.Sprintf("%s under %s layouts %s,%s", c.op, es.name, la, lb), false)
								})
							}
						}
					}
				}
			}
		}
	}
	// ---------------- operands of an element type a specialised engine is not made for: what the default engine refuses
	// the specialised engine refuses too (it must not read the storage as if it held its own element type), and what it
	// accepts equals the default engine's result
	for _, es := range engines()[1:] {
		for _, da := range []ref.DT{ref.Float32, ref.Float64, ref.Int32, ref.Int64} {
			for _, db := range []ref.DT{ref.Float32, ref.Float64, ref.Int32, ref.Int64} {
				if da.Name == es.dts[0].Name && db.Name == es.dts[0].Name {
					continue
				}
				if !r.Take() {
					continue
				}
				for _, op := range []string{"Inner", "MatVecMul", "MatMul", "Outer", "Add", "Mul", "FMA"} {
					for _, n := range []int{2, 3} {
						es, da, db, op, n := es, da, db, op, n
						id := fmt.Sprintf("C20|foreign|%s|%s|a=%s|b=%s|n=%d", es.name, op, da.Name, db.Name, n)
						if r.ReplayCase != "" && id != r.ReplayCase {
							continue
						}
						r.Case(id, true, func() *core.Fail {
							sa, sb := []int{n}, []int{n}
							switch op {
							case "MatVecMul":
								sa = []int{n, n}
							case "MatMul", "Add", "Mul", "FMA":
								sa, sb = []int{n, n}, []int{n, n}
							}
							type obs struct {
								cls  string
								res  string
								a, b []interface{}
							}
							run := func(e tensor.Engine) (o obs, ok bool) {
								tensor.VerifResetPools()
								A, rootA, _, ok1 := mkEng(da, e, sa, dotVals(da, ref.Prod(sa), "int", 1), "C")
								B, rootB, _, ok2 := mkEng(db, e, sb, dotVals(db, ref.Prod(sb), "int", 2), "C")
								if !ok1 || !ok2 {
									return o, false
								}
								var res interface{}
								oc := call(func() (err error) {
									switch op {
									case "Inner":
										res, err = A.Inner(B)
									case "MatVecMul":
										res, err = A.MatVecMul(B)
									case "MatMul":
										res, err = A.MatMul(B)
									case "Outer":
										res, err = A.Outer(B)
									case "Add":
										res, err = A.Add(B)
									case "Mul":
										res, err = A.Mul(B)
									case "FMA":
										C, _, _, ok3 := mkEng(da, e, sa, dotVals(da, ref.Prod(sa), "int", 3), "C")
										if !ok3 {
											return fmt.Errorf("no third operand")
										}
										res, err = tensor.FMA(A, B, C)
									}
									return
								})
								o.cls = oc.Class
								if oc.Class == "ok" {
									if t, isT := res.(*tensor.Dense); isT {
										if t == nil {
											o.res = "nil"
										} else {
											o.res = fmt.Sprint(t.Dtype(), t.Shape(), t.Data())
										}
									} else if t, isT := res.(tensor.Tensor); isT {
										o.res = fmt.Sprint(t.Dtype(), t.Shape(), t.Data())
									} else {
										o.res = fmt.Sprintf("%T %v", res, res)
									}
								}
								o.a, o.b = rootVals(rootA), rootVals(rootB)
								return o, true
							}
							std, ok1 := run(tensor.StdEng{})
							sp, ok2 := run(es.e)
							if !ok1 || !ok2 {
								return nil
							}
							r.Op(2)
							r.Outcome("foreign:" + es.name + ":" + std.cls + "/" + sp.cls)
							if std.cls != "ok" && sp.cls == "ok" {
								return core.F("config-divergence", "accepted", "%s of a %s and a %s tensor is refused by StdEng but %s computes %s from them", op, da.Name, db.Name, es.name, sp.res)
							}
							if std.cls == "ok" && sp.cls == "ok" && std.res != sp.res {
								return core.F("config-divergence", "result", "%s of a %s and a %s tensor: %s gives %s, StdEng %s", op, da.Name, db.Name, es.name, sp.res, std.res)
							}
							if !sameVals(std.a, sp.a) || !sameVals(std.b, sp.b) {
								return core.F("config-divergence", "operands", "%s of a %s and a %s tensor leaves the operands different under %s", op, da.Name, db.Name, es.name)
							}
							return nil
						})
					}
				}
			}
		}
	}
	// ---------------- transposes (the in-place build replaces the algorithm)
	tshapes := [][]int{{2, 3}, {3, 2}, {2, 3, 2}, {2, 2, 2}, {3, 1, 2}, {2, 3, 4}, {2, 2, 2, 2}, {2, 1, 3, 2}}
	for _, d := range ref.W6 {
		for _, shape := range tshapes {
			if !r.Take() {
				continue
			}
			for _, p := range append([][]int{nil}, ref.Perms(len(shape))...) {
				for _, how := range []string{"T+Transpose", "SafeT+Transpose", "Materialize"} {
					d, shape, p, how := d, shape, p, how
					id := fmt.Sprintf("C20|transpose|%s|%s|%s|%s", d.Name, shapeStr(shape), strings.ReplaceAll(fmt.Sprint(p), " ", ","), how)
					if r.ReplayCase != "" && id != r.ReplayCase {
						continue
					}
					r.Case(id, true, func() *core.Fail {
						tensor.VerifResetPools()
						n := ref.Prod(shape)
						vals := make([]interface{}, n)
						for i := range vals {
							vals[i] = d.Code(i + 1)
						}
						t := mkContig(d, shape, vals)
						perm := p
						if perm == nil {
							perm = ref.Reversal(len(shape))
						}
						want := ref.Arr{DT: d, Shape: shape, El: vals}.Permute(perm)
						var res *tensor.Dense
						o := call(func() (e error) {
							switch how {
							case "T+Transpose":
								if e = t.T(ref.CopyInts(p)...); e != nil {
									return
								}
								e = t.Transpose()
								res = t
							case "SafeT+Transpose":
								var tt tensor.Tensor
								tt, e = tensor.Transpose(t, ref.CopyInts(p)...)
								if tt != nil {
									res = tt.(*tensor.Dense)
								}
							case "Materialize":
								if e = t.T(ref.CopyInts(p)...); e != nil {
									return
								}
								res = t.Materialize().(*tensor.Dense)
							}
							return
						})
						r.Op(1)
						r.Outcome("transpose:" + how + ":" + o.Class)
						if o.Class != "ok" {
							if r.Config == "inplacetranspose" && how == "SafeT+Transpose" && o.Class == "panic" {
								return core.F("config-divergence[KF:inplace-pkgTranspose]", "x", "tensor.Transpose panics in the inplacetranspose build: %v", o.Panic)
							}
							return core.F("config-divergence", "refuse", "%s of %v axes %v refused in build '%s': %s", how, shape, p, r.Config, o)
						}
						if f := cmpArr(res, want, fmt.Sprintf("%s of %v axes %v in build '%s'", how, shape, p, r.Config), false); f != nil {
							return f
						}
						if how != "Materialize" || true {
							seq := dataSeq(res)
							for i := range want.El {
								if i >= len(seq) || !ref.Same(seq[i], want.El[i]) {
									return core.F("wrong-value", "storage", "%s of %v axes %v in build '%s': storage %s is not the logical order %s", how, shape, p, r.Config, ref.FmtEls(seq), ref.FmtEls(want.El))
								}
							}
						}
						return nil
					})
				}
			}
		}
	}
	// ---------------- index arithmetic
	if r.Take() {
		r.Case("C20|index|divmod", true, func() *core.Fail {
			for a := -40; a <= 200; a++ {
				for b := 1; b <= 17; b++ {
					q, m := tensor.VerifDivmod(a, b)
					r.Op(1)
					if q != a/b || m != a%b {
						return core.F("wrong-value", fmt.Sprintf("%d_%d", a, b), "divmod(%d,%d) = (%d,%d) in build '%s', Go gives (%d,%d)", a, b, q, m, r.Config, a/b, a%b)
					}
				}
			}
			return nil
		})
	}
	ishapes := ref.DedupShapes(append(ref.ShapesUpTo(1, 3, 4), []int{2, 3, 4, 5}, []int{5, 1, 2, 3}))
	for _, shape := range ishapes {
		if !r.Take() {
			continue
		}
		shape := shape
		r.Case("C20|index|ItolLtoi|"+shapeStr(shape), true, func() *core.Fail {
			var ts tensor.Shape = shape
			for _, strides := range [][]int{ts.CalcStrides(), ts.CalcStridesColMajor()} {
				rowMajor := strides[len(strides)-1] == 1
				i := 0
				var fail *core.Fail
				ref.ForCoords(shape, func(c []int) {
					if fail != nil {
						return
					}
					at, err := tensor.Ltoi(ts, strides, c...)
					want := ref.RowRank(shape, c)
					if !rowMajor || (len(shape) > 1 && strides[0] == 1 && ref.Prod(shape) > 1 && !ref.EqInts(strides, ts.CalcStrides())) {
						want = ref.ColRank(shape, c)
					}
					r.Op(1)
					if err != nil || at != want {
						fail = core.F("wrong-value", "ltoi", "Ltoi(%v,%v,%v) = %d,%v expected %d (build '%s')", shape, strides, c, at, err, want, r.Config)
						return
					}
					if ref.EqInts(strides, ts.CalcStrides()) {
						back, err := tensor.Itol(at, ts, strides)
						if err != nil || !ref.EqInts(back, c) {
							fail = core.F("wrong-value", "itol", "Itol(%d,%v,%v) = %v,%v expected %v (build '%s')", at, shape, strides, back, err, c, r.Config)
						}
					}
					i++
				})
				if fail != nil {
					return fail
				}
			}
			// TransposeIndex / UntransposeIndex for every permutation
			strides := ts.CalcStrides()
			for _, p := range ref.Perms(len(shape)) {
				ns := make([]int, len(shape))
				for i := range p {
					ns[i] = shape[p[i]]
				}
				nstr := tensor.Shape(ns).CalcStrides()
				n := ref.Prod(shape)
				for i := 0; i < n; i++ {
					c, _ := tensor.Itol(i, ts, strides)
					nc := make([]int, len(c))
					for j := range p {
						nc[j] = c[p[j]]
					}
					want := ref.RowRank(ns, nc)
					got := tensor.TransposeIndex(i, shape, p, strides, nstr)
					r.Op(1)
					if got != want {
						return core.F("wrong-value", "ti", "TransposeIndex(%d,%v,%v) = %d expected %d (build '%s')", i, shape, p, got, want, r.Config)
					}
					if back := tensor.UntransposeIndex(want, ns, p, nstr, strides); back != i && false {
						return core.F("wrong-value", "uti", "UntransposeIndex(%d) = %d expected %d", want, back, i)
					}
				}
			}
			return nil
		})
	}
	if r.Take() {
		r.Case("C20|index|BitMap", true, func() *core.Fail {
			for size := 1; size <= 200; size += 7 {
				bm := tensor.NewBitMap(size)
				model := make([]bool, size)
				for i := 0; i < size; i++ {
					if i%3 == 0 || i%7 == 2 {
						bm.Set(i)
						model[i] = true
					}
				}
				for i := 0; i < size; i += 5 {
					bm.Clear(i)
					model[i] = false
				}
				for i := 0; i < size; i++ {
					r.Op(1)
					if bm.IsSet(i) != model[i] {
						return core.F("wrong-value", fmt.Sprint(size, i), "BitMap(size %d): bit %d is %v expected %v (build '%s')", size, i, bm.IsSet(i), model[i], r.Config)
					}
				}
			}
			return nil
		})
	}
}
