package props

import (
	"fmt"
	"strings"

	"gorgonia.org/tensor"
	"verifharness/atlas"
	"verifharness/core"
	"verifharness/ref"
)

func init() {
	register(&Def{ID: "C03", Engine: "E2", Run: runC03, Configs: []string{"inplacetranspose"},
		Rule: "explicit-state BFS: state = (real tensor, model array + pending-undo); alphabet = T(p) for every permutation p, T(), UT, Transpose, Materialize, SafeT(p), RollAxis(a,s,safe), tensor.T, tensor.Transpose and invalid permutations; " +
			"successor = replay of the path on a fresh instance + one operation; dedup on (metadata, storage bytes, pending); one case = one state with its complete outgoing alphabet; non-trivial = rank>=2 and a non-initial state or a data-moving operation; both builds (default, inplacetranspose)",
		Assume: []string{"reference model ref.Arr.Permute; logical read-out by At (decided by C01)", "T applied to a tensor that already has a pending lazy transpose may move data; UT is required to restore the exact pre-T tensor only when that T was applied to a tensor with nothing pending",
			"storage-order oracle after Transpose() applies to tensors owning their whole storage (not to views)"}})
}

type c03op struct {
	Name string
	P    []int
	A, S int
	Safe bool
}

func (o c03op) String() string {
	switch o.Name {
	case "T", "SafeT", "pkgT", "pkgTranspose":
		if o.P == nil {
			return o.Name + "()"
		}
		return o.Name + strings.ReplaceAll(fmt.Sprint(o.P), " ", ",")
	case "RollAxis":
		return fmt.Sprintf("RollAxis(%d,%d,%v)", o.A, o.S, o.Safe)
	}
	return o.Name
}

type c03state struct {
	t      *tensor.Dense
	L      ref.Arr  // model: logical content
	pend   *ref.Arr // model: logical content before the pending lazy transpose
	pendFP string   // fingerprint before the pending T when it was applied on a clean tensor
	owns   bool     // tensor owns its whole storage (not a view)
}

func c03Ops(rank int, full bool) []c03op {
	var ops []c03op
	perms := ref.Perms(rank)
	ops = append(ops, c03op{Name: "T"})
	for _, p := range perms {
		ops = append(ops, c03op{Name: "T", P: p})
	}
	ops = append(ops, c03op{Name: "UT"}, c03op{Name: "Transpose"}, c03op{Name: "Materialize"})
	// axes that are no permutation of the dimensions: a repeated axis, an axis out of range, a negative one, too many
	if rank >= 1 {
		rep := make([]int, rank)
		high := make([]int, rank)
		neg := make([]int, rank)
		for i := range high {
			high[i], neg[i] = i, i
		}
		high[0], neg[rank-1] = rank, -1
		long := append(ref.Reversal(rank), rank)
		for _, bad := range [][]int{rep, high, neg, long} {
			ops = append(ops, c03op{Name: "T", P: bad})
			if full {
				ops = append(ops, c03op{Name: "SafeT", P: bad})
			}
		}
		if rank >= 2 {
			last := make([]int, rank)
			for i := range last {
				last[i] = rank - 1
			}
			ops = append(ops, c03op{Name: "T", P: last})
		}
	}
	if full {
		ops = append(ops, c03op{Name: "SafeT"}, c03op{Name: "pkgT"}, c03op{Name: "pkgTranspose"})
		for _, p := range perms {
			ops = append(ops, c03op{Name: "SafeT", P: p})
			if rank <= 3 {
				ops = append(ops, c03op{Name: "pkgTranspose", P: p})
			}
		}
		for a := 0; a < rank; a++ {
			for s := 0; s <= rank; s++ {
				ops = append(ops, c03op{Name: "RollAxis", A: a, S: s, Safe: false}, c03op{Name: "RollAxis", A: a, S: s, Safe: true})
			}
		}
	}
	return ops
}

func rollPerm(rank, axis, start int) ([]int, bool, bool) { // perm, noop, valid
	if axis < 0 || axis >= rank || start < 0 || start > rank {
		return nil, false, false
	}
	if axis < start {
		start--
	}
	if axis == start {
		return nil, true, true
	}
	var axes []int
	for i := 0; i < rank; i++ {
		if i != axis {
			axes = append(axes, i)
		}
	}
	out := append([]int{}, axes[:start]...)
	out = append(out, axis)
	out = append(out, axes[start:]...)
	return out, false, true
}

func isIdentity(p []int) bool {
	for i, a := range p {
		if a != i {
			return false
		}
	}
	return true
}

func arrEq(a, b ref.Arr) bool {
	if !ref.EqInts(a.Shape, b.Shape) || len(a.El) != len(b.El) {
		return false
	}
	for i := range a.El {
		if !ref.Same(a.El[i], b.El[i]) {
			return false
		}
	}
	return true
}

func readArr(d ref.DT, t *tensor.Dense) (ref.Arr, error) {
	vals, err := atlas.Logical(t)
	if err != nil {
		return ref.Arr{}, err
	}
	return ref.Arr{DT: d, Shape: ref.CopyInts(t.Shape()), El: vals}, nil
}

func dataSeq(t *tensor.Dense) []interface{} {
	data := t.Data()
	n := ref.SliceLen(data)
	out := make([]interface{}, n)
	for i := range out {
		out[i] = ref.SliceGet(data, i)
	}
	return out
}

// c03Step applies op to a state; returns the successor (nil when the op was (correctly) refused) and a failure.
func c03Step(d ref.DT, st *c03state, op c03op) (*c03state, string, string) {
	rank := len(st.L.Shape)
	ns := &c03state{t: st.t, L: st.L, pend: st.pend, pendFP: st.pendFP, owns: st.owns}
	fpBefore := atlas.Fingerprint(st.t)
	metaBefore := tensor.VerifMetaOf(st.t)
	var res *tensor.Dense
	var o Outcome
	perm := op.P
	valid := true
	noop := false
	switch op.Name {
	case "T", "SafeT", "pkgT", "pkgTranspose":
		if perm == nil {
			perm = ref.Reversal(rank)
		} else {
			valid = ref.ValidPerm(perm, rank)
		}
	case "RollAxis":
		perm, noop, valid = rollPerm(rank, op.A, op.S)
	}
	args := ref.CopyInts(op.P)
	argsCopy := ref.CopyInts(args)
	switch op.Name {
	case "T":
		o = call(func() error { return st.t.T(args...) })
	case "UT":
		o = call(func() error { st.t.UT(); return nil })
	case "Transpose":
		o = call(func() error { return st.t.Transpose() })
	case "Materialize":
		o = call(func() error { res = st.t.Materialize().(*tensor.Dense); return nil })
	case "SafeT":
		o = call(func() (e error) { res, e = st.t.SafeT(args...); return })
	case "pkgT":
		o = call(func() (e error) {
			var r tensor.Tensor
			r, e = tensor.T(st.t, args...)
			if e == nil {
				res = r.(*tensor.Dense)
			}
			return
		})
	case "pkgTranspose":
		o = call(func() (e error) {
			var r tensor.Tensor
			r, e = tensor.Transpose(st.t, args...)
			if e == nil {
				res = r.(*tensor.Dense)
			}
			return
		})
	case "RollAxis":
		o = call(func() (e error) { res, e = st.t.RollAxis(op.A, op.S, op.Safe); return })
	}
	if !ref.EqInts(args, argsCopy) {
		return nil, "caller-slice-mutated", fmt.Sprintf("%s changed the caller's axes slice %v -> %v", op, argsCopy, args)
	}
	if !valid {
		switch o.Class {
		case "ok":
			return nil, "accepted-invalid", fmt.Sprintf("%s on shape %v accepted", op, st.L.Shape)
		case "panic":
			return nil, "panic-instead-of-error", fmt.Sprintf("%s on shape %v: %v", op, st.L.Shape, o.Panic)
		}
		if fp := atlas.Fingerprint(st.t); fp != fpBefore {
			return nil, "operand-changed", fmt.Sprintf("refused %s changed the tensor", op)
		}
		return nil, "", ""
	}
	if o.Class != "ok" {
		return nil, "unexpected-refusal", fmt.Sprintf("%s on shape %v (pending=%v): %s", op, st.L.Shape, st.pend != nil, o)
	}
	// model
	pure := false // op must leave the receiver unchanged and return a new tensor
	switch op.Name {
	case "T":
		if rank < 2 || isIdentity(perm) {
			// no-op transposes: nothing changes (T() of a vector, identity permutation)
			break
		}
		nl := st.L.Permute(perm)
		if st.pend != nil && arrEq(nl, *st.pend) && tensor.VerifMetaOf(st.t).OldZero {
			// the new transpose cancels the pending one and the library chose to undo
			ns.pend, ns.pendFP = nil, ""
		} else {
			prev := st.L
			ns.pend = &prev
			ns.pendFP = ""
			if st.pend == nil && metaBefore.OldZero && !tensor.VerifMetaOf(st.t).OldZero {
				ns.pendFP = fpBefore
			}
		}
		ns.L = nl
	case "UT":
		if st.pend != nil {
			ns.L = *st.pend
			ns.pend = nil
		}
		ns.pendFP = ""
	case "Transpose":
		ns.pend, ns.pendFP = nil, ""
	case "Materialize":
		pure = true
		if res == st.t {
			pure = false // documented identity for non-materialisable tensors
		} else {
			ns = &c03state{t: res, L: st.L, owns: true}
		}
	case "SafeT", "pkgT", "pkgTranspose":
		pure = true
		nl := st.L
		if rank >= 2 && !isIdentity(perm) {
			nl = st.L.Permute(perm)
		}
		ns = &c03state{t: res, L: nl, owns: true}
		if op.Name != "pkgTranspose" && rank >= 2 && !isIdentity(perm) {
			prev := st.L
			ns.pend = &prev // SafeT returns a lazily transposed copy
		}
	case "RollAxis":
		if noop && op.Safe {
			// nothing to roll: the copying form still hands out a tensor of its own (like SafeT with the identity axes), the
			// same array as the receiver
			if res == st.t {
				return nil, "retval-identity", fmt.Sprintf("%s (safe) returned the receiver itself instead of a copy", op)
			}
			pure = true
			ns = &c03state{t: res, L: st.L, owns: true}
			break
		}
		if noop {
			if res != st.t {
				return nil, "retval-identity", fmt.Sprintf("%s is a no-op and must return the receiver", op)
			}
			break
		}
		if op.Safe {
			pure = true
			prev := st.L
			ns = &c03state{t: res, L: st.L.Permute(perm), owns: true, pend: &prev}
		} else {
			if res != st.t {
				return nil, "retval-identity", fmt.Sprintf("%s must return the receiver", op)
			}
			nl := st.L.Permute(perm)
			if st.pend != nil && arrEq(nl, *st.pend) && tensor.VerifMetaOf(st.t).OldZero {
				ns.pend, ns.pendFP = nil, ""
			} else {
				prev := st.L
				ns.pend = &prev
				ns.pendFP = ""
				if st.pend == nil && metaBefore.OldZero && !tensor.VerifMetaOf(st.t).OldZero {
					ns.pendFP = fpBefore
				}
			}
			ns.L = nl
		}
	}
	if pure {
		if fp := atlas.Fingerprint(st.t); fp != fpBefore {
			return nil, "operand-changed", fmt.Sprintf("%s changed its receiver: %s", op, atlas.MetaString(st.t))
		}
		if res == st.t {
			return nil, "retval-identity", fmt.Sprintf("%s returned the receiver instead of a new tensor", op)
		}
	}
	// compare logical content
	got, err := readArr(d, ns.t)
	if err != nil {
		return nil, "wrong-value", fmt.Sprintf("after %s: tensor unreadable: %v (%s)", op, err, atlas.MetaString(ns.t))
	}
	if !ref.EqInts(got.Shape, ns.L.Shape) {
		return nil, "wrong-shape", fmt.Sprintf("after %s on shape %v: expected shape %v got %v", op, st.L.Shape, ns.L.Shape, got.Shape)
	}
	if !arrEq(got, ns.L) {
		return nil, "wrong-value", fmt.Sprintf("after %s on shape %v (pending=%v): expected %s got %s", op, st.L.Shape, st.pend != nil, ref.FmtEls(ns.L.El), ref.FmtEls(got.El))
	}
	// op specific
	switch op.Name {
	case "UT":
		if st.pendFP != "" {
			if fp := atlas.Fingerprint(ns.t); fp != st.pendFP {
				return nil, "wrong-value", fmt.Sprintf("UT did not restore the exact pre-T tensor: %s", atlas.MetaString(ns.t))
			}
		}
	case "Transpose", "pkgTranspose":
		m := tensor.VerifMetaOf(ns.t)
		if (!m.OldZero || m.HasTW) && rank >= 2 && !tensor.Shape(ns.L.Shape).IsVector() && !tensor.Shape(ns.L.Shape).IsScalarEquiv() {
			return nil, "wrong-value", fmt.Sprintf("after %s a lazy transpose is still pending: %s", op, atlas.MetaString(ns.t))
		}
		if ns.owns && m.ViewOf == 0 && rank >= 1 && ref.Prod(ns.L.Shape) > 1 && (op.Name == "pkgTranspose" || !metaBefore.OldZero) {
			seq := dataSeq(ns.t)
			var want []interface{}
			if ns.t.DataOrder().IsColMajor() {
				v := ref.RootF(ns.L.Shape) // cell of each coordinate in column-major storage
				want = make([]interface{}, len(v.Cell))
				for i, c := range v.Cell {
					want[c] = ns.L.El[i]
				}
			} else {
				want = ns.L.El
			}
			bad := len(seq) < len(want) // a copy of a view may carry trailing storage beyond the logical elements
			for i := 0; !bad && i < len(want); i++ {
				if !ref.Same(seq[i], want[i]) {
					bad = true
				}
			}
			if bad {
				return nil, "wrong-value", fmt.Sprintf("after %s storage is not in the logical order of the transposed tensor: storage %s, expected %s", op, ref.FmtEls(seq), ref.FmtEls(want))
			}
			var ds tensor.Shape = ns.L.Shape
			var wantStr []int
			if ns.t.DataOrder().IsColMajor() {
				wantStr = ds.CalcStridesColMajor()
			} else {
				wantStr = ds.CalcStrides()
			}
			if !ref.EqInts(wantStr, ns.t.Strides()) {
				return nil, "wrong-value", fmt.Sprintf("after %s strides %v are not the default strides %v", op, ns.t.Strides(), wantStr)
			}
		}
	}
	return ns, "", ""
}

// c03Tag recognises the preconditions of the recorded C03 findings (see /verif/known_findings.jsonl). The tag is
// appended to the violation kind; anything that does not meet a precondition stays untagged and is a VIOLATION.
func c03Tag(cfg string, before tensor.VerifMeta, colMajor bool, op c03op, kind string) string {
	if kind != "wrong-value" && kind != "wrong-shape" && kind != "unexpected-refusal" {
		return ""
	}
	rank := len(before.Shape)
	pending := !before.OldZero
	selfOld := pending && ref.EqInts(before.OldShape, before.Shape) && ref.EqInts(before.OldStrides, before.Strides)
	vec := rank == 1 || tensor.Shape(before.Shape).IsVector()
	unit := true
	for _, s := range before.Strides {
		if s != 1 {
			unit = false
		}
	}
	isT := op.Name == "T" || op.Name == "SafeT" || op.Name == "pkgT" || op.Name == "pkgTranspose" || op.Name == "RollAxis"
	moves := op.Name == "Transpose" || op.Name == "pkgTranspose" || ((op.Name == "T" || op.Name == "RollAxis") && pending)
	// storage that holds more cells than the shape has elements: a view, or the copy SafeT makes of one (it keeps the
	// window and the strides)
	nonCompact := before.ViewOf != 0 || (before.ElSize > 0 && before.RawLen/before.ElSize > ref.Prod(before.Shape))
	_ = selfOld // (the finding F-C03-noop-safeT-selfold that this precondition belonged to is repaired: c0295b9)
	_ = isT
	switch {
	case vec && before.ViewOf != 0 && !unit && isT:
		return "[KF:strided-vector-view]"
	case colMajor && moves:
		return "[KF:colmajor-data-movement]"
	case cfg == "inplacetranspose" && op.Name == "pkgTranspose" && kind == "unexpected-refusal":
		return "[KF:inplace-pkgTranspose]"
	case cfg == "inplacetranspose" && nonCompact && moves:
		return "[KF:inplace-view-data-movement]"
	}
	return ""
}

func c03Key(st *c03state) string {
	return fmt.Sprintf("%s|%x|p=%v", atlas.MetaString(st.t), core.H64(string(tensor.VerifRaw(st.t))), st.pend != nil)
}

func runC03(r *core.Run) {
	quick := isQuick(r)
	type plan struct {
		shapes [][]int
		depth  int
		full   bool
	}
	var plans []plan
	if quick {
		plans = []plan{
			{ref.ShapesUpTo(0, 2, 3), 3, true},
			{[][]int{{2, 2, 2}, {2, 3, 2}, {3, 1, 2}, {1, 2, 3}, {3, 3, 3}, {2, 3, 4}}, 3, true},
			{[][]int{{2, 2, 2, 2}, {2, 1, 2, 3}, {3, 2, 1, 2}, {2, 3, 2, 3}}, 2, true},
			{[][]int{{2, 2, 2, 2, 2}, {1, 2, 3, 2, 1}, {2, 1, 3, 2, 2}}, 2, false},
			// vector-like shapes of rank >= 3 (one long axis): their strided views take the vector shortcuts
			{[][]int{{1, 3, 1}, {3, 1, 1}, {1, 1, 3}, {1, 4, 1, 1}}, 3, true},
		}
		r.SetBound("plan", "rank0-2 dims<=3 depth 3 full alphabet; rank3 {(2,2,2),(2,3,2),(3,1,2),(1,2,3),(3,3,3),(2,3,4)} depth 3; rank4 4 shapes depth 2; rank5 3 shapes depth 2 with alphabet {T(p) all 120, T(), UT, Transpose, Materialize}; vector-like (1,3,1),(3,1,1),(1,1,3),(1,4,1,1) depth 3")
	} else {
		plans = []plan{
			{ref.ShapesUpTo(0, 2, 4), 4, true},
			{ref.Shapes(3, 3), 3, true},
			{[][]int{{2, 3, 4}, {4, 3, 2}, {2, 2, 2}}, 4, true},
			{append(ref.Shapes(4, 2), []int{2, 3, 2, 3}, []int{3, 3, 3, 3}, []int{2, 1, 3, 4}), 2, true},
			{[][]int{{2, 2, 2, 2}, {2, 1, 2, 3}}, 3, true},
			{append(ref.Shapes(5, 2), []int{3, 3, 3, 3, 3}, []int{1, 2, 3, 2, 1}, []int{2, 3, 1, 3, 2}), 2, false},
			{[][]int{{1, 3, 1}, {3, 1, 1}, {1, 1, 3}, {1, 4, 1, 1}, {1, 1, 5, 1}, {4, 1, 1, 1}}, 3, true},
		}
		r.SetBound("plan", "rank0-2 dims<=4 depth 4; rank3 dims<=3 depth 3 (+3 shapes depth 4); rank4 dims<=2 + 3 shapes depth 2 (2 shapes depth 3); rank5 dims<=2 + (3,3,3,3,3) + 2 shapes depth 2 reduced alphabet")
	}
	dts := ref.W6
	layouts := []string{"C", "F", "S", "SS", "DC", "DS"}
	maxStates := 1500
	if !quick {
		maxStates = 20000
	}
	r.SetBound("dtypes", "uint8(1B) int16(2B) float32(4B) int64(8B) complex128(16B) string; sources C,F,S,SS")
	r.SetBound("max_expanded_states_per_root", maxStates)
	for _, pl := range plans {
		for _, shape := range pl.shapes {
			for _, d := range dts {
				for _, lay := range layouts {
					if !r.Take() {
						continue
					}
					if r.Expired() {
						return
					}
					if (len(shape) >= 4 && (lay == "SS" || lay == "S") || lay == "DS" || (lay == "DC" && len(shape) >= 4)) && d.Name != "float32" && d.Name != "complex128" {
						continue
					}
					c03BFS(r, d, shape, lay, pl.depth, pl.full, maxStates)
				}
			}
		}
	}
}

func c03BFS(r *core.Run, d ref.DT, shape []int, lay string, depth int, full bool, maxStates int) {
	n := ref.Prod(shape)
	vals := make([]interface{}, n)
	for i := range vals {
		vals[i] = d.Code(i + 1)
	}
	mkRoot := func() *c03state {
		tensor.VerifResetPools()
		b, err := atlas.Build(d, shape, vals, lay)
		if err != nil {
			return nil
		}
		return &c03state{t: b.T, L: ref.Arr{DT: d, Shape: ref.CopyInts(shape), El: vals}, owns: lay == "C" || lay == "F" || lay == "DC"}
	}
	if mkRoot() == nil {
		r.Dim("skipped_roots", lay)
		return
	}
	replay := func(path []c03op) *c03state {
		st := mkRoot()
		for _, op := range path {
			ns, kind, _ := c03Step(d, st, op)
			if kind != "" || ns == nil {
				return nil
			}
			st = ns
		}
		return st
	}
	ops := c03Ops(len(shape), full)
	type qe struct{ path []c03op }
	seen := map[string]bool{}
	frontier := []qe{{nil}}
	if st := mkRoot(); st != nil {
		seen[c03Key(st)] = true
	}
	expanded := 0
	for lvl := 0; lvl < depth && len(frontier) > 0; lvl++ {
		var next []qe
		for _, e := range frontier {
			if r.Expired() {
				return
			}
			if expanded >= maxStates {
				r.CapHit = true
				r.Note(fmt.Sprintf("C03 BFS: expanded-state cap %d hit for %s %v %s at level %d", maxStates, d.Name, shape, lay, lvl))
				return
			}
			expanded++
			var ps []string
			for _, o := range e.path {
				ps = append(ps, o.String())
			}
			id := fmt.Sprintf("C03|%s|%s|%s|%s", d.Name, shapeStr(shape), lay, strings.Join(ps, "."))
			var succ []c03op
			r.CaseAlways(id, len(shape) >= 2, func() *core.Fail {
				succ = succ[:0]
				var fails, sig []string
				kinds := map[string]bool{}
				for _, op := range ops {
					st := replay(e.path)
					if st == nil {
						return core.F("NONDETERMINISTIC", "replay", "path no longer replays")
					}
					mb := tensor.VerifMetaOf(st.t)
					cm := st.t.DataOrder().IsColMajor()
					ns, kind, detail := c03Step(d, st, op)
					r.Op(1)
					if kind != "" {
						kind += c03Tag(r.Config, mb, cm, op, kind)
					}
					r.Outcome(op.Name + ":" + kind)
					if kind != "" {
						if st0 := replay(e.path); st0 != nil {
							m := tensor.VerifMetaOf(st0.t)
							selfOld := !m.OldZero && ref.EqInts(m.OldShape, m.Shape) && ref.EqInts(m.OldStrides, m.Strides)
							r.Dim("fail_sig", fmt.Sprintf("%s|%s|%s|%s|pend=%v|vec=%v|selfold=%v|view=%v|colmajor=%v|rank=%d", lay, r.Config, op.Name, kind, !m.OldZero, tensor.Shape(m.Shape).IsVector() || len(m.Shape) == 1, selfOld, m.ViewOf != 0, st0.t.DataOrder().IsColMajor(), len(m.Shape)))
						}
						kinds[kind] = true
						sig = append(sig, op.String()+"→"+kind)
						if len(fails) < 8 {
							fails = append(fails, op.String()+"→"+kind+": "+detail)
						}
						continue
					}
					if ns == nil {
						continue
					}
					k := c03Key(ns)
					r.State(k)
					if !seen[k] {
						seen[k] = true
						succ = append(succ, op)
					}
				}
				if len(fails) == 0 {
					return nil
				}
				var ks []string
				for kd := range kinds {
					ks = append(ks, kd)
				}
				sortStrings(ks)
				return core.F(strings.Join(ks, "+"), fmt.Sprintf("%x", core.H64(strings.Join(sig, ";"))), "%s", strings.Join(fails, " ; "))
			})
			for _, op := range succ {
				next = append(next, qe{append(append([]c03op{}, e.path...), op)})
			}
		}
		frontier = next
	}
}
