package props

import (
	"fmt"
	"os"
	"runtime"
	"runtime/debug"
	"sort"
	"strings"
	"sync"

	"gorgonia.org/tensor"
	"verifharness/atlas"
	"verifharness/core"
	"verifharness/sched"
)

func init() {
	register(&Def{ID: "C18", Engine: "E3", Run: runC18,
		Rule: "programs = every unordered pair (thorough: also triples) of goroutines, each running one operation (plus two-operation bodies, and two option-carrying operations on private tensors - among them one that first makes calls that are REFUSED after their options were parsed - against a third) from the read-only alphabet over a set of SHARED tensors (contiguous matrix, lazily transposed matrix, sliced view, vector, masked vector) or from the private alphabet; every program is explored by the cooperative scheduler with a stateless DFS under iterative preemption bounding - all executions with 0 preemptions, then <= 1, then <= 2; the bound completed below the execution cap is recorded per program - (scheduling points = every Mutex Lock/Unlock, every Pool Get/Put, the entry of every function of perf.go and every channel operation of its channel-based pools); " +
			"oracle per complete interleaving: each goroutine's result digest equals its result when run alone; monitor at EVERY scheduling point: the fingerprint (metadata + storage) of every shared tensor equals its initial fingerprint; deadlock = no enabled goroutine. states = distinct (program, pool/global state hash) at scheduling points; transitions = scheduling steps. " +
			"auxiliary (sampling, not the deciding step): the same bodies free-running under the race detector against the real package sync",
		Assume: []string{"sequential consistency between scheduling points; unsynchronised accesses between points are visible only through the monitor and the auxiliary -race pass", "the sync.Pool shim is a legal refinement of sync.Pool (LIFO free list)"}})
}

// shared tensors of one execution
type c18shared struct {
	M, MT, SV, V, V2, MK, CM *tensor.Dense
	all                      []*tensor.Dense
	fps                      []uint64
}

func c18Setup() *c18shared {
	s := &c18shared{}
	s.M = tensor.New(tensor.WithShape(3, 2), tensor.WithBacking([]float64{1, 2, 3, 4, 5, 6}))
	s.MT = tensor.New(tensor.WithShape(3, 2), tensor.WithBacking([]float64{1, 2, 3, 4, 5, 6}))
	s.MT.T() // (2,3) lazily transposed
	root := tensor.New(tensor.WithShape(4, 4), tensor.WithBacking(tensor.Range(tensor.Float64, 0, 16)))
	v, _ := root.Slice(tensor.S(1, 4), tensor.S(1, 3)) // (3,2) view
	s.SV = v.(*tensor.Dense)
	s.V = tensor.New(tensor.WithShape(3), tensor.WithBacking([]float64{1, -2, 3}))
	s.V2 = tensor.New(tensor.WithShape(2), tensor.WithBacking([]float64{2, 5}))
	s.MK = tensor.New(tensor.WithShape(4), tensor.WithBacking([]float64{4, 1, 3, 2}, []bool{false, true, false, false}))
	s.CM = tensor.New(tensor.WithShape(2, 2), tensor.WithBacking([]complex128{1 + 2i, 2, 3 - 1i, 4})) // built without Of(): no type registration
	s.all = []*tensor.Dense{s.M, s.MT, s.SV, s.V, s.V2, s.MK, root, s.CM}
	for _, t := range s.all {
		s.fps = append(s.fps, tensor.VerifQuickHash(t))
	}
	return s
}

func (s *c18shared) check() string {
	names := []string{"M", "MT", "SV", "V", "V2", "MK", "root(SV)", "CM"}
	for i, t := range s.all {
		if tensor.VerifQuickHash(t) != s.fps[i] {
			return fmt.Sprintf("shared tensor %s was modified: now %s", names[i], atlas.MetaString(t))
		}
	}
	return ""
}

func dig(t tensor.Tensor, err error) string {
	if err != nil {
		return "ERR"
	}
	d, ok := t.(*tensor.Dense)
	if !ok || d == nil {
		return "NIL"
	}
	v, e := atlas.Logical(d)
	if e != nil {
		return "UNREADABLE"
	}
	return fmt.Sprint(d.Shape(), v)
}

type c18op struct {
	name string
	f    func(s *c18shared) string
}

func c18Ops() []c18op {
	priv := func() *tensor.Dense {
		return tensor.New(tensor.WithShape(3, 2), tensor.WithBacking([]float64{10, 20, 30, 40, 50, 60}))
	}
	return []c18op{
		{"At(M)", func(s *c18shared) string { v, e := s.M.At(2, 1); return fmt.Sprint(v, e != nil) }},
		{"At(MT)", func(s *c18shared) string { v, e := s.MT.At(1, 2); return fmt.Sprint(v, e != nil) }},
		{"Slice(M)", func(s *c18shared) string {
			v, e := s.M.Slice(tensor.S(1, 3))
			if e != nil {
				return "ERR"
			}
			return dig(v.(*tensor.Dense), nil)
		}},
		{"Slice(MT)+Materialize", func(s *c18shared) string {
			v, e := s.MT.Slice(nil, tensor.S(0, 2))
			if e != nil {
				return "ERR"
			}
			return dig(v.Materialize(), nil)
		}},
		{"Iterate(SV)", func(s *c18shared) string {
			it := tensor.FlatIteratorFromDense(s.SV)
			var offs []int
			for i, e := it.Next(); e == nil; i, e = it.Next() {
				offs = append(offs, i)
			}
			return fmt.Sprint(offs)
		}},
		{"MultIter(M,SV)", func(s *c18shared) string {
			it := tensor.MultIteratorFromDense(s.M, s.SV)
			var offs []int
			for _, e := it.Next(); e == nil; _, e = it.Next() {
				offs = append(offs, it.LastIndex(0), it.LastIndex(1))
			}
			return fmt.Sprint(offs)
		}},
		{"Add(M,private)", func(s *c18shared) string { return dig(tensor.Add(s.M, priv())) }},
		{"Add(SV,M)", func(s *c18shared) string { return dig(tensor.Add(s.SV, s.M)) }},
		{"Sub(MT,MT)", func(s *c18shared) string { return dig(tensor.Sub(s.MT, s.MT)) }},
		{"Lt(SV,private)", func(s *c18shared) string { return dig(tensor.Lt(s.SV, priv())) }},
		{"MulScalar(M)", func(s *c18shared) string { return dig(tensor.Mul(s.M, 2.0)) }},
		{"GtScalar(SV)", func(s *c18shared) string { return dig(tensor.Gt(s.SV, 7.0)) }},
		{"Neg(MT)", func(s *c18shared) string { return dig(tensor.Neg(s.MT)) }},
		{"Sum(M,0)", func(s *c18shared) string { return dig(tensor.Sum(s.M, 0)) }},
		{"Sum(CM,1)", func(s *c18shared) string { return dig(tensor.Sum(s.CM, 1)) }}, // a 16-byte element type: result tensors are made with Of(dtype)
		{"Sum(SV)", func(s *c18shared) string { return dig(tensor.Sum(s.SV)) }},
		{"Max(MT,1)", func(s *c18shared) string { r, e := s.MT.Max(1); return dig(r, e) }},
		{"Argmax(MT,1)", func(s *c18shared) string { return dig(tensor.Argmax(s.MT, 1)) }},
		{"Argmax(MK)", func(s *c18shared) string { return dig(tensor.Argmax(s.MK, tensor.AllAxes)) }},
		{"Dot(V,M)", func(s *c18shared) string { return dig(tensor.Dot(s.V, s.M)) }},
		{"Dot(V2,MT)", func(s *c18shared) string { return dig(tensor.Dot(s.V2, s.MT)) }},
		{"MatMul(MT,M)", func(s *c18shared) string { return dig(tensor.MatMul(s.MT, s.M)) }},
		{"MatMul(MT,SV)", func(s *c18shared) string { return dig(tensor.MatMul(s.MT, s.SV)) }},
		{"MatVecMul(M,V2)", func(s *c18shared) string { return dig(tensor.MatVecMul(s.M, s.V2)) }},
		{"Inner(V,V)", func(s *c18shared) string { v, e := tensor.Inner(s.V, s.V); return fmt.Sprint(v, e != nil) }},
		{"Outer(V,V2)", func(s *c18shared) string { return dig(tensor.Outer(s.V, s.V2)) }},
		{"TensorMul(MT,M)", func(s *c18shared) string { r, e := s.MT.TensorMul(s.M, []int{1}, []int{0}); return dig(r, e) }},
		{"Norm(M)", func(s *c18shared) string { r, e := s.M.Norm(tensor.FrobeniusNorm()); return dig(r, e) }},
		{"Norm(SV,1)", func(s *c18shared) string { r, e := s.SV.Norm(tensor.Norm(1), 1); return dig(r, e) }},
		{"Clone(MT)", func(s *c18shared) string { return dig(s.MT.Clone().(tensor.Tensor), nil) }},
		{"Materialize(SV)", func(s *c18shared) string { return dig(s.SV.Materialize(), nil) }},
		{"SafeT(M)", func(s *c18shared) string { r, e := s.M.SafeT(); return dig(r, e) }},
		{"Sprintf(M)", func(s *c18shared) string { return fmt.Sprintf("%v|%v", s.M, s.MK) }},
		{"Concat(M,SV)", func(s *c18shared) string { r, e := s.M.Concat(0, s.SV); return dig(r, e) }},
		{"Stack(M,SV)", func(s *c18shared) string { r, e := s.M.Stack(1, s.SV); return dig(r, e) }},
		{"Repeat(MT)", func(s *c18shared) string { return dig(tensor.Repeat(s.MT, 1, 2)) }},
		{"MaskedCount(MK)", func(s *c18shared) string { return fmt.Sprint(s.MK.MaskedCount(), s.MK.FlatNotMaskedContiguous()) }},
		{"Gob(SV)", func(s *c18shared) string { b, e := s.SV.GobEncode(); return fmt.Sprint(len(b), e != nil) }},
		// private alphabet
		{"private:New+Return", func(s *c18shared) string {
			t := tensor.New(tensor.WithShape(2, 2), tensor.WithBacking([]float64{1, 2, 3, 4}))
			r := dig(tensor.Add(t, t, tensor.UseUnsafe()))
			tensor.ReturnTensor(t)
			return r
		}},
		{"private:T+UT+Transpose", func(s *c18shared) string {
			t := tensor.New(tensor.WithShape(2, 3), tensor.WithBacking([]float64{1, 2, 3, 4, 5, 6}))
			t.T()
			a := dig(t, nil)
			t.UT()
			t.T(1, 0)
			t.Transpose()
			return a + dig(t, nil)
		}},
		{"private:Reshape+Sum", func(s *c18shared) string {
			t := tensor.New(tensor.WithShape(2, 3), tensor.WithBacking([]float64{1, 2, 3, 4, 5, 6}))
			t.Reshape(3, 2)
			return dig(tensor.Sum(t, 1))
		}},
		// operations with options on PRIVATE tensors: the parsed option record is pooled; each goroutine must see its own
		// options only. The results include the private operands and destinations as they are afterwards
		{"private:AddReuseReshaped", func(s *c18shared) string {
			a, b := priv(), priv()
			r := tensor.New(tensor.WithShape(6), tensor.WithBacking([]float64{0, 0, 0, 0, 0, 0}))
			return dig(tensor.Add(a, b, tensor.WithReuse(r))) + dig(a, nil) + dig(b, nil) + dig(r, nil)
		}},
		{"private:AddSafe", func(s *c18shared) string {
			a, b := priv(), priv()
			return dig(tensor.Add(a, b)) + dig(a, nil) + dig(b, nil)
		}},
		{"private:AddUnsafe", func(s *c18shared) string {
			a, b := priv(), priv()
			return dig(tensor.Add(a, b, tensor.UseUnsafe())) + dig(a, nil) + dig(b, nil)
		}},
		{"private:AddIncr", func(s *c18shared) string {
			a, b, c := priv(), priv(), priv()
			return dig(tensor.Add(a, b, tensor.WithIncr(c))) + dig(a, nil) + dig(b, nil) + dig(c, nil)
		}},
		// calls that are REFUSED after their options were parsed (each refusal path hands the pooled option record back on its
		// own), followed by an operation whose options must still be its own
		{"private:RefusedOptions+AddIncr", func(s *c18shared) string {
			a, b, c := priv(), priv(), priv()
			ints := tensor.New(tensor.WithShape(2, 2), tensor.WithBacking([]int{0, 0, 0, 0}))
			small := tensor.New(tensor.WithShape(2), tensor.WithBacking([]float64{0, 0}))
			at, _ := a.SafeT()
			out := ""
			_, e := tensor.Dot(at, b, tensor.WithIncr(ints))
			out += fmt.Sprint(e != nil)
			_, e = tensor.Dot(at, b, tensor.WithReuse(ints))
			out += fmt.Sprint(e != nil)
			_, e = tensor.Add(a, b, tensor.WithReuse(small))
			out += fmt.Sprint(e != nil)
			_, e = tensor.MatMul(at, b, tensor.WithIncr(small))
			out += fmt.Sprint(e != nil)
			return out + dig(tensor.Add(a, b, tensor.WithIncr(c))) + dig(a, nil) + dig(b, nil) + dig(c, nil)
		}},
		{"private:LtSame", func(s *c18shared) string {
			a, b := priv(), priv()
			return dig(tensor.Lt(a, b, tensor.AsSameType())) + dig(a, nil) + dig(b, nil)
		}},
		// scalar forms of a comparison, min/max and arithmetic between a ONE-element tensor and a scalar (these have their own
		// early-return paths around the pooled scalar header; C19 runs every such form sequentially and counts the headers
		// in the pool), followed by an ordinary tensor-scalar operation
		{"private:ScalarOpsLen1", func(s *c18shared) string {
			one := func() *tensor.Dense { return tensor.New(tensor.WithShape(1), tensor.WithBacking([]float64{3})) }
			out := ""
			for _, f := range []func(a, b interface{}, opts ...tensor.FuncOpt) (tensor.Tensor, error){tensor.Gte, tensor.ElEq, tensor.MaxBetween, tensor.Sub} {
				f := f
				for _, g := range []func() (tensor.Tensor, error){
					func() (tensor.Tensor, error) { return f(one(), 2.0) },
				} {
					func() {
						defer func() {
							if recover() != nil {
								out += "PANIC" // a panicking form is recorded under C07: the same alone and interleaved
							}
						}()
						out += dig(g())
					}()
				}
			}
			return out + dig(tensor.Add(priv(), 1.0))
		}},
		{"UsePool-toggle", func(s *c18shared) string {
			tensor.DontUsePool()
			t := tensor.New(tensor.WithShape(2), tensor.WithBacking([]float64{1, 2}))
			tensor.ReturnTensor(t)
			tensor.UsePool()
			return "ok"
		}},
	}
}

func runC18(r *core.Run) {
	if os.Getenv("VERIF_C18_RACEPASS") != "" {
		c18RacePass()
		return
	}
	quick := isQuick(r)
	ops := c18Ops()
	bound := 1
	hotBound := 2
	maxExec := 3000
	if !quick {
		bound = 2
		hotBound = 3
		maxExec = 60000
	}
	r.SetBound("preemption_bound", fmt.Sprintf("%d for every program, %d for programs of two 'hot' operations (those that borrow/return pool slices or rewrite metadata: Dot, TensorMul, Sum, Concat, MultIter, New+Return, T+UT+Transpose)", bound, hotBound))
	r.SetBound("threads", "2 (thorough: + selected triples)")
	r.SetBound("alphabet", len(ops))
	r.SetBound("max_executions_per_program", maxExec)
	debug.SetGCPercent(-1)
	defer debug.SetGCPercent(400)
	runtime.GOMAXPROCS(1) // hand-offs between goroutines are fastest on one P
	// sequential oracle: each op alone
	solo := make([]string, len(ops))
	for i, op := range ops {
		tensor.VerifResetPools()
		s := c18Setup()
		solo[i] = op.f(s)
	}
	type prog struct {
		idx [][]int // per thread: list of op indices
		hot bool
	}
	var progs []prog
	hot := []int{}
	isHot := map[int]bool{}
	for i, op := range ops {
		switch op.name {
		case "private:ScalarOpsLen1", "Norm(M)", "Dot(V,M)", "Dot(V2,MT)", "TensorMul(MT,M)", "Sum(M,0)", "private:New+Return", "private:T+UT+Transpose", "Concat(M,SV)", "MultIter(M,SV)", "MulScalar(M)", "GtScalar(SV)":
			hot = append(hot, i)
			isHot[i] = true
		}
	}
	for i := range ops {
		for j := i; j < len(ops); j++ {
			progs = append(progs, prog{[][]int{{i}, {j}}, isHot[i] && isHot[j]})
		}
	}
	// two-operation bodies for the operations that touch pools / metadata the most
	for _, i := range hot {
		for _, j := range hot {
			progs = append(progs, prog{[][]int{{i, j}, {j}}, false})
		}
	}
	// option operations: two in a row against a third - a pooled record handed back early (or twice) by the first only
	// shows when the second overlaps another goroutine's operation with different options
	var optOps []int
	for i, op := range ops {
		switch op.name {
		case "private:AddReuseReshaped", "private:AddSafe", "private:AddUnsafe", "private:AddIncr", "private:LtSame", "private:RefusedOptions+AddIncr":
			optOps = append(optOps, i)
		}
	}
	for _, i := range optOps {
		for _, j := range optOps {
			for _, k := range optOps {
				progs = append(progs, prog{[][]int{{i, j}, {k}}, false})
			}
		}
	}
	if !quick {
		for _, i := range hot {
			for _, j := range hot {
				for _, k := range hot {
					if i <= j && j <= k {
						progs = append(progs, prog{[][]int{{i}, {j}, {k}}, false})
					}
				}
			}
		}
	}
	r.SetBound("programs", len(progs))
	for _, p := range progs {
		if !r.Take() {
			continue
		}
		if r.Expired() {
			return
		}
		p := p
		var names []string
		for _, th := range p.idx {
			var ns []string
			for _, i := range th {
				ns = append(ns, ops[i].name)
			}
			names = append(names, strings.Join(ns, ";"))
		}
		id := "C18|" + strings.Join(names, " || ")
		if r.ReplayCase != "" && id != r.ReplayCase {
			continue
		}
		idh := core.H64(id)
		r.Case(id, true, func() *core.Fail {
			want := make([]string, len(p.idx))
			for t, th := range p.idx {
				var parts []string
				for _, i := range th {
					parts = append(parts, solo[i])
				}
				want[t] = strings.Join(parts, "#")
			}
			outcomes := map[string]bool{}
			var fail *core.Fail
			var shared *c18shared
			nruns := 0
			run := func(prefix []int) *sched.Exec {
				// the collector is switched off during an execution (finalizers would be an unowned source of
				// nondeterminism); garbage is collected between executions, where nothing of the library is live
				if nruns++; nruns%256 == 0 {
					runtime.GC()
				}
				tensor.VerifResetPools()
				shared = c18Setup()
				sh := shared
				bodies := make([]sched.Body, len(p.idx))
				for t, th := range p.idx {
					th := th
					bodies[t] = func() string {
						var parts []string
						for _, i := range th {
							parts = append(parts, ops[i].f(sh))
						}
						return strings.Join(parts, "#")
					}
				}
				return sched.Run(bodies, prefix, func(tid int, what string) string { return sh.check() }, func() uint64 {
					return idh ^ tensor.VerifPoolHash()
				})
			}
			check := func(x *sched.Exec) bool {
				r.Op(len(x.Points))
				for _, h := range x.States {
					r.StateH(h)
				}
				outcomes[strings.Join(x.Results, "|")] = true
				sched := strings.ReplaceAll(fmt.Sprint(x.Choices), " ", ",")
				switch {
				case x.Diverged != "":
					fail = core.F("NONDETERMINISTIC", "div", "schedule %s: %s", sched, x.Diverged)
				case x.Deadlock:
					fail = core.F("deadlock", "dl", "schedule %s: no enabled goroutine", sched)
				case x.Monitor != "":
					fail = core.F("shared-tensor-mutated", "mon", "schedule %s: %s", sched, x.Monitor)
				default:
					for t := range want {
						if x.Results[t] != want[t] {
							fail = core.F("schedule-dependent-result", fmt.Sprintf("t%d", t), "schedule %s: goroutine %d (%s) observed %s, alone it observes %s", sched, t, names[t], clipS(x.Results[t]), clipS(want[t]))
							break
						}
					}
				}
				if fail == nil {
					if m := shared.check(); m != "" {
						fail = core.F("shared-tensor-mutated", "end", "schedule %s: after all goroutines finished: %s", sched, m)
					}
				}
				return fail == nil
			}
			b := bound
			if p.hot {
				b = hotBound
			}
			if r.Replaying() && len(r.ReplaySchedule) > 0 {
				// replay of one recorded schedule, without the explorer
				x := run(r.ReplaySchedule)
				fmt.Printf("REPLAY schedule %v of program %s: %d scheduling points\n", x.Choices, id, len(x.Points))
				for i, p := range x.Points {
					fmt.Printf("  point %3d: after goroutine %d reached %-28s enabled %v -> runs %d\n", i, p.Running, p.What, p.Enabled, p.Enabled[p.Chosen])
				}
				fmt.Printf("  results: %q (alone: %q)\n", x.Results, want)
				check(x)
				return fail
			}
			// iterative context bounding: everything with 0 preemptions, then <= 1, then <= 2; the bound reported as
			// completed is the last one whose exploration ended without reaching the execution cap
			completed, execs := -1, 0
			for bb := 0; bb <= b && fail == nil; bb++ {
				ex := sched.NewExplorer(bb, maxExec, run, check)
				ex.Explore(nil)
				execs += ex.Executions
				r.Traces += int64(ex.Executions)
				if ex.Capped {
					r.CapHit = true
					r.Note(fmt.Sprintf("execution cap %d hit for program %s at preemption bound %d (bound %d explored completely)", maxExec, id, bb, completed))
					break
				}
				if fail == nil {
					completed = bb
				}
			}
			r.Dim("executions_per_program", bucket(execs))
			r.Dim("distinct_outcomes_per_program", fmt.Sprint(len(outcomes)))
			r.Dim("preemption_bound_completed", fmt.Sprint(completed))
			for _, n := range names {
				if fail == nil {
					r.Outcome("schedule-independent:" + n)
				} else {
					r.Outcome(fail.Kind + ":" + n)
				}
			}
			runtime.GC()
			return fail
		})
	}
}

func clipS(s string) string {
	if len(s) > 160 {
		return s[:160] + "…"
	}
	return s
}

func bucket(n int) string {
	switch {
	case n <= 1:
		return "1"
	case n <= 10:
		return "2-10"
	case n <= 100:
		return "11-100"
	case n <= 1000:
		return "101-1000"
	}
	return ">1000"
}

// c18RacePass: auxiliary free-running pass (binary built with -race against the real package sync). Every program is
// started from a barrier and repeated; race reports go to the race detector's log (parsed by ./check).
func c18RacePass() {
	ops := c18Ops()
	reps := 30
	var idxs []int
	for i := range ops {
		idxs = append(idxs, i)
	}
	sort.Ints(idxs)
	n := 0
	for _, procs := range []int{1, 2, 4, 16} {
		runtime.GOMAXPROCS(procs)
		for i := range ops {
			for j := i; j < len(ops); j++ {
				for rep := 0; rep < reps/len([]int{1, 2, 4, 16})+1; rep++ {
					tensor.VerifResetLazyGlobals() // cold start: the first-use paths of lazily filled tables run in every program
					s := c18Setup()
					var wg sync.WaitGroup
					start := make(chan struct{})
					for _, k := range []int{i, j} {
						k := k
						wg.Add(1)
						go func() {
							defer wg.Done()
							defer func() { recover() }()
							<-start
							ops[k].f(s)
						}()
					}
					close(start)
					wg.Wait()
					n++
				}
			}
		}
	}
	fmt.Printf("RACEPASS programs_run=%d\n", n)
}
