package props

import (
	"fmt"

	"gorgonia.org/tensor"
	"verifharness/atlas"
	"verifharness/core"
	"verifharness/ref"
)

func init() {
	register(&Def{ID: "C11", Engine: "E1", Run: runC11,
		Rule: "cross product: 6 comparisons x every element type (ordered types for <,>,<=,>=; all comparable types for ==,!=) x {TT,TS,ST} x result mode {bool, same-type, in place (unsafe), reuse bool tensor, reuse same-type tensor} x layout of each tensor operand (L5 x L5) x op-matrix shape x value set {injective, ties and sign mixes, edge incl. NaN/extremes} x {function, method}; " +
			"every coordinate compared with Go's comparison in operand order; plus the refusal space (unordered types, element-type pairs, unequal shapes)",
		Assume: []string{"as C06", "an operation/element-type pair that the library refuses on the plainest input is 'unsupported' and must then be refused everywhere"}})
}

func runC11(r *core.Run) {
	quick := isQuick(r)
	shapes := OPSH
	if !quick {
		shapes = append(append([][]int{}, OPSH...), OPSHX...)
	}
	r.SetBound("shapes", fmt.Sprint(shapes))
	modes := []string{"safe", "same+safe", "unsafe", "reuse:C", "same+reuse:C"}
	for _, op := range cmpOps {
		for _, d := range ref.ALL18 {
			for _, shape := range shapes {
				if !r.Take() {
					continue
				}
				if r.Expired() {
					return
				}
				for _, vs := range []string{"id", "eq", "edge"} {
					if (vs == "eq") && !d.IsSigned() && d.Class != ref.CUint {
						continue
					}
					for _, mode := range modes {
						if quick && vs != "id" && (mode == "reuse:C" || mode == "same+reuse:C") {
							continue
						}
						if (mode != "safe" && mode != "reuse:C") && !d.IsNumber() {
							// same-type / in-place results are 1/0 of the operand type: numeric types only
							continue
						}
						for _, la := range atlas.L5 {
							for _, lb := range atlas.L5 {
								if quick && !(la == lb || la == "C" || lb == "C") {
									continue
								}
								for _, api := range []string{"func", "method"} {
									if api == "method" && quick && vs != "id" {
										continue
									}
									ewRunCase(r, "C11", ewCase{kind: "cmp", op: op, form: "TT", mode: mode, api: api, d: d, shape: shape, layA: la, layB: lb, vs: vs, strict: true}, nil)
								}
							}
							for _, form := range []string{"TS", "ST", "TSt", "StT"} {
								if (form == "TSt" || form == "StT") && (op == "ElNe" || (quick && vs != "id") || len(shape) == 0) {
									// (rank-0 operand: both operands are scalar-shaped tensors and which of them is "the scalar" is the library's choice)
									continue // the package-level ElNe has no dispatch for a scalar-shaped tensor operand (see C07)
								}
								for _, api := range []string{"func", "method"} {
									if api == "method" && (quick && vs != "id" || form == "TSt" || form == "StT") {
										continue
									}
									ewRunCase(r, "C11", ewCase{kind: "cmp", op: op, form: form, mode: mode, api: api, d: d, shape: shape, layA: la, layB: la, vs: vs, strict: true}, nil)
								}
							}
						}
					}
				}
			}
		}
	}
	// every edge value of the type as the scalar of the tensor-scalar forms (contiguous and iterator kernels, Bool and
	// same-type results)
	for _, op := range cmpOps {
		for _, d := range ref.ALL18 {
			if !supported("cmp", op, d) {
				continue
			}
			if !r.Take() {
				continue
			}
			ne := len(edgeVals(d))
			if ne > 13 {
				ne = 13
			}
			for _, shape := range [][]int{{4}, {2, 3}} {
				for k := 0; k < ne; k++ {
					for _, form := range []string{"TS", "ST"} {
						for _, la := range []string{"C", "T"} {
							for _, mode := range []string{"safe", "same+safe"} {
								if mode == "same+safe" && !d.IsNumber() {
									continue
								}
								ewRunCase(r, "C11", ewCase{kind: "cmp", op: op, form: form, mode: mode, api: "func", d: d, shape: shape, layA: la, layB: la, vs: fmt.Sprintf("edges@%d", k), strict: true}, nil)
							}
						}
					}
				}
			}
		}
	}
	// refusal space: element type pairs and unequal shapes
	mk := func(d ref.DT, shape []int) *tensor.Dense {
		n := ref.Prod(shape)
		vals := make([]interface{}, n)
		for i := range vals {
			vals[i] = d.Code(i + 1)
		}
		return mkContig(d, shape, vals)
	}
	pairs := [][2]ref.DT{{ref.Float64, ref.Int}, {ref.Int, ref.Int8}, {ref.Float32, ref.Float64}, {ref.Uint8, ref.Int8}, {ref.Complex64, ref.Complex128}, {ref.Float64, ref.Bool}, {ref.String, ref.Int}, {ref.Int64, ref.Uint64}}
	for _, op := range cmpOps {
		for _, p := range pairs {
			for _, shape := range [][]int{{3}, {2, 3}} {
				if !r.Take() {
					continue
				}
				p, shape, op := p, shape, op
				id := fmt.Sprintf("C11|%s|refuse-dtype|%s|%s|%s", op, p[0].Name, p[1].Name, shapeStr(shape))
				r.Case(id, true, func() *core.Fail {
					tensor.VerifResetPools()
					A, B := mk(p[0], shape), mk(p[1], shape)
					o := call(func() error { _, e := binFns[op](A, B); return e })
					r.Op(1)
					r.Outcome("refusal:" + o.Class)
					if o.Class == "ok" {
						return core.F("accepted-invalid", "x", "%s of %s and %s tensors was computed", op, p[0].Name, p[1].Name)
					}
					if o.Class == "panic" {
						return core.F("panic-instead-of-error", "x", "%s of %s and %s tensors panicked: %v", op, p[0].Name, p[1].Name, o.Panic)
					}
					return nil
				})
			}
		}
		for _, s1 := range OPSH {
			for _, s2 := range OPSH {
				if len(s1) == 0 || len(s2) == 0 || ref.EqInts(s1, s2) || softEq(s1, s2) {
					continue
				}
				if !r.Take() {
					continue
				}
				s1, s2, op := s1, s2, op
				id := fmt.Sprintf("C11|%s|refuse-shape|%s|%s", op, shapeStr(s1), shapeStr(s2))
				r.Case(id, true, func() *core.Fail {
					tensor.VerifResetPools()
					A, B := mk(ref.Float64, s1), mk(ref.Float64, s2)
					o := call(func() error { _, e := binFns[op](A, B); return e })
					r.Op(1)
					r.Outcome("refusal:" + o.Class)
					if o.Class == "ok" {
						return core.F("accepted-invalid", "x", "%s of shapes %v and %v was computed", op, s1, s2)
					}
					if o.Class == "panic" {
						return core.F("panic-instead-of-error", "x", "%s of shapes %v and %v panicked: %v", op, s1, s2, o.Panic)
					}
					return nil
				})
			}
		}
	}
}
