package props

import (
	"fmt"
	"reflect"
	"strings"

	"gorgonia.org/tensor"
	"verifharness/atlas"
	"verifharness/core"
	"verifharness/ref"
)

func init() {
	register(&Def{ID: "C12", Engine: "E1", Run: runC12,
		Rule: "cross product: 14 unary operations + Clamp x every element type (unsupported ones must be refused everywhere) x operand layout L5 x option mode {safe, unsafe, reuse contiguous, reuse view, incr} x op-matrix shape x value sets {injective positive, signed/ties, edge (0, negatives, extremes, non-finite; Clamp of NaN stays NaN)}; " +
			"Apply(fn) with a func(T) T of every element type x layouts x modes, and wrong-signature functions (must be refused); every coordinate compared with the scalar function (exact for integer and sign/abs/neg/square/cube, tolerance for transcendental functions)",
		Assume: []string{"as C06; complex unary functions other than Neg/Square/Cube/Inv/Sqrt/Exp/Log/Tanh are not judged", "float32 functions are compared with a 1e-5 relative tolerance against package math"}})
}

// applyModel is the user function given to Apply, defined once on interface{} values.
func applyModel(d ref.DT, x interface{}) interface{} {
	switch d.Class {
	case ref.CBool:
		return !x.(bool)
	case ref.CString:
		return x.(string) + "!"
	case ref.CPtr:
		return x
	case ref.CUintptr:
		return x.(uintptr) + 1
	}
	return ref.Arith("Add", ref.Arith("Mul", x, d.Code(2)).V, d.Code(1)).V
}

func applyFn(d ref.DT) interface{} {
	t := d.D.Type
	ft := reflect.FuncOf([]reflect.Type{t}, []reflect.Type{t}, false)
	return reflect.MakeFunc(ft, func(in []reflect.Value) []reflect.Value {
		return []reflect.Value{reflect.ValueOf(applyModel(d, in[0].Interface()))}
	}).Interface()
}

// applyFnErr is applyFn with the error-returning signature func(T) (T, error); it never fails.
func applyFnErr(d ref.DT) interface{} {
	t := d.D.Type
	et := reflect.TypeOf((*error)(nil)).Elem()
	ft := reflect.FuncOf([]reflect.Type{t}, []reflect.Type{t, et}, false)
	return reflect.MakeFunc(ft, func(in []reflect.Value) []reflect.Value {
		return []reflect.Value{reflect.ValueOf(applyModel(d, in[0].Interface())), reflect.Zero(et)}
	}).Interface()
}

func runC12(r *core.Run) {
	quick := isQuick(r)
	shapes := OPSH
	if !quick {
		shapes = append(append([][]int{}, OPSH...), OPSHX...)
	}
	r.SetBound("shapes", fmt.Sprint(shapes))
	modes := []string{"safe", "unsafe", "reuse:C", "incr:C", "reuse:SS", "reuse:T"}
	ops := append(append([]string{}, unaryOps...), "Clamp")
	for _, op := range ops {
		kind := "unary"
		if op == "Clamp" {
			kind = "clamp"
		}
		for _, d := range ref.ALL18 {
			for _, shape := range shapes {
				if !r.Take() {
					continue
				}
				if r.Expired() {
					return
				}
				for _, vs := range []string{"id", "eq", "edge", "edge2"} {
					for _, mode := range modes {
						if quick && vs != "id" && mode != "safe" && mode != "unsafe" {
							continue
						}
						for _, la := range atlas.L5 {
							ewRunCase(r, "C12", ewCase{kind: kind, op: op, form: "U", mode: mode, api: "func", d: d, shape: shape, layA: la, layB: la, vs: vs, strict: mode == "safe" || mode == "unsafe" || mode == "reuse:C" || mode == "incr:C"}, nil)
						}
					}
				}
			}
		}
	}
	// Apply
	for _, d := range ref.ALL18 {
		for _, shape := range shapes {
			if !r.Take() {
				continue
			}
			for _, lay := range atlas.L5 {
				for _, mode := range []string{"safe", "unsafe", "reuse", "incr", "wrongsig", "safe|err", "unsafe|err", "reuse|err", "incr|err"} {
					// "|err": the user function has the error-returning signature func(T) (T, error) (and never fails)
					withErr := strings.HasSuffix(mode, "|err")
					d, shape, lay, mode := d, shape, lay, strings.TrimSuffix(mode, "|err")
					id := fmt.Sprintf("C12|Apply|%s|%s|%s|%s", d.Name, shapeStr(shape), lay, mode)
					if withErr {
						id += "|err"
					}
					if r.ReplayCase != "" && id != r.ReplayCase {
						continue
					}
					if mode == "incr" && !d.IsNumber() {
						continue
					}
					r.Case(id, true, func() *core.Fail {
						tensor.VerifResetPools()
						n := ref.Prod(shape)
						vals, _, _ := ewVals(d, n, "id")
						A, err := atlas.Build(d, shape, vals, lay)
						if err != nil || A.VerifyLogical() != nil {
							r.Dim("skipped", "apply:"+lay)
							return nil
						}
						snap := A.Snapshot()
						var opts []tensor.FuncOpt
						var dst *tensor.Dense
						dv := make([]interface{}, n)
						for i := range dv {
							dv[i] = d.Code(i%3 + 1)
						}
						switch mode {
						case "unsafe":
							opts = append(opts, tensor.UseUnsafe())
						case "reuse":
							dst = mkContig(d, shape, dv)
							opts = append(opts, tensor.WithReuse(dst))
						case "incr":
							dst = mkContig(d, shape, dv)
							opts = append(opts, tensor.WithIncr(dst))
						}
						fn := applyFn(d)
						if withErr {
							fn = applyFnErr(d)
						}
						if mode == "wrongsig" {
							other := ref.Float64
							if d.Name == "float64" {
								other = ref.Int
							}
							fn = applyFn(other)
						}
						var res tensor.Tensor
						o := call(func() (e error) { res, e = A.T.Apply(fn, opts...); return })
						r.Op(1)
						r.Outcome("Apply:" + mode + ":" + o.Class)
						if mode == "wrongsig" {
							if ch := A.Changed(snap); ch != "" {
								return core.F("operand-changed", "ws", "refused Apply changed the tensor: %s", ch)
							}
							if o.Class == "ok" {
								return core.F("accepted-invalid", "ws", "Apply accepted a function of the wrong signature")
							}
							return nil
						}
						if mode != "unsafe" {
							if ch := A.Changed(snap); ch != "" {
								return core.F("operand-changed", "a", "Apply (%s) changed its operand: %s", mode, ch)
							}
						} else {
							img := map[int]bool{}
							for _, c := range A.View.Cell {
								img[c] = true
							}
							for _, c := range A.ChangedCells(snap) {
								if !img[c] {
									return core.F("frame-violated", "a", "unsafe Apply changed root cell %d outside the tensor", c)
								}
							}
						}
						if o.Class != "ok" {
							return core.F("unexpected-refusal", "x", "Apply(%s) on %s layout %s refused: %s", mode, d.Name, lay, o)
						}
						rd := res.(*tensor.Dense)
						switch mode {
						case "unsafe":
							if rd != A.T {
								return core.F("retval-identity", "id", "unsafe Apply must return the receiver")
							}
						case "reuse", "incr":
							if rd != dst {
								return core.F("retval-identity", "id", "Apply with %s must return the destination", mode)
							}
						default:
							if rd == A.T || overlaps(rd, A.Root) {
								return core.F("alias-unexpected", "id", "safe Apply result aliases the operand")
							}
						}
						got, gerr := atlas.Logical(rd)
						if gerr != nil || len(got) != n {
							return core.F("wrong-value", "unreadable", "Apply result unreadable: %v", gerr)
						}
						for i := 0; i < n; i++ {
							exp := applyModel(d, vals[i])
							if mode == "incr" {
								exp = ref.Arith("Add", dv[i], exp).V
							}
							if !ref.Same(got[i], exp) && !ref.Close(got[i], exp) {
								if mode == "reuse" || mode == "incr" {
									// DEFECT model of F-C12-apply-reuse-maps-destination: fn is applied to the reuse tensor's
									// previous contents, the operand is never read
									allAlt := true
									for j := 0; j < n; j++ {
										alt := applyModel(d, dv[j])
										if mode == "incr" {
											alt = ref.Arith("Add", dv[j], alt).V
										}
										if !ref.Same(got[j], alt) {
											allAlt = false
										}
									}
									if allAlt {
										return core.F("wrong-value[KF:apply-reuse-maps-destination]", "ar", "Apply with a reuse tensor delivers fn(previous contents of the reuse tensor): got %s", ref.FmtEls(got))
									}
								}
								return core.F("wrong-value", fmt.Sprintf("el%d", i), "Apply(%s) element %d: got %s expected %s (input %s)", mode, i, ref.Fmt(got[i]), ref.Fmt(exp), ref.Fmt(vals[i]))
							}
						}
						return nil
					})
				}
			}
		}
	}
}
