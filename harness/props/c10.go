package props

import (
	"fmt"
	"strings"

	"gorgonia.org/tensor"
	"verifharness/atlas"
	"verifharness/core"
	"verifharness/ref"
)

func init() {
	register(&Def{ID: "C10", Engine: "E1", Run: runC10,
		Rule: "cross product: {Concat, Stack, Hstack, Vstack} x 1-4 operands x shapes of rank 1-4 x every valid axis (plus invalid axes and non-fitting shapes for the refusal space) x layout of each operand (all L5 combinations for <=3 operands; the same tensor given two and three times, alone and next to another operand) x element widths 1,2,4,8,16 bytes and strings x {function, method}; " +
			"{Repeat, RepeatReuse} x layouts x every axis and AllAxes x uniform counts 0..3 and every per-element count vector over {0,1,2}; every result element compared with NumPy's definition applied to the model arrays; operands unchanged. non-trivial = the result has >= 2 elements",
		Assume: []string{"reference definitions: numpy.concatenate / stack / hstack / vstack / repeat", "Vstack of 1-d operands is refused by the library by design (documented: needs 2 dimensions)"}})
}

// concatModel concatenates arrays along axis (all other dims equal); ok=false when the shapes do not fit.
func concatModel(arrs []ref.Arr, axis int) (ref.Arr, bool) {
	r := len(arrs[0].Shape)
	if axis < 0 || axis >= r {
		return ref.Arr{}, false
	}
	shape := ref.CopyInts(arrs[0].Shape)
	shape[axis] = 0
	for _, a := range arrs {
		if len(a.Shape) != r {
			return ref.Arr{}, false
		}
		for i := range a.Shape {
			if i != axis && a.Shape[i] != arrs[0].Shape[i] {
				return ref.Arr{}, false
			}
		}
		shape[axis] += a.Shape[axis]
	}
	out := ref.Arr{DT: arrs[0].DT, Shape: shape, El: make([]interface{}, 0, ref.Prod(shape))}
	src := make([]int, r)
	ref.ForCoords(shape, func(c []int) {
		copy(src, c)
		k := c[axis]
		for _, a := range arrs {
			if k < a.Shape[axis] {
				src[axis] = k
				out.El = append(out.El, a.At(src))
				return
			}
			k -= a.Shape[axis]
		}
	})
	return out, true
}

func stackModel(arrs []ref.Arr, axis int) (ref.Arr, bool) {
	r := len(arrs[0].Shape)
	if axis < 0 || axis > r {
		return ref.Arr{}, false
	}
	for _, a := range arrs {
		if !ref.EqInts(a.Shape, arrs[0].Shape) {
			return ref.Arr{}, false
		}
	}
	var shape []int
	shape = append(shape, arrs[0].Shape[:axis]...)
	shape = append(shape, len(arrs))
	shape = append(shape, arrs[0].Shape[axis:]...)
	out := ref.Arr{DT: arrs[0].DT, Shape: shape, El: make([]interface{}, 0, ref.Prod(shape))}
	src := make([]int, r)
	ref.ForCoords(shape, func(c []int) {
		j := 0
		for i := range c {
			if i != axis {
				src[j] = c[i]
				j++
			}
		}
		out.El = append(out.El, arrs[c[axis]].At(src))
	})
	return out, true
}

// repeatModel: numpy.repeat(a, reps, axis); axis<0 = flatten first. reps has length 1 (broadcast) or dim.
func repeatModel(a ref.Arr, axis int, reps []int) (ref.Arr, bool) {
	if axis < 0 {
		a = ref.Arr{DT: a.DT, Shape: []int{len(a.El)}, El: a.El}
		axis = 0
	}
	if axis >= len(a.Shape) {
		return ref.Arr{}, false
	}
	n := a.Shape[axis]
	full := make([]int, n)
	switch len(reps) {
	case 1:
		for i := range full {
			full[i] = reps[0]
		}
	case n:
		copy(full, reps)
	default:
		return ref.Arr{}, false
	}
	var idx []int
	for i, k := range full {
		if k < 0 {
			return ref.Arr{}, false
		}
		for j := 0; j < k; j++ {
			idx = append(idx, i)
		}
	}
	shape := ref.CopyInts(a.Shape)
	shape[axis] = len(idx)
	out := ref.Arr{DT: a.DT, Shape: shape, El: make([]interface{}, 0, ref.Prod(shape))}
	src := make([]int, len(shape))
	ref.ForCoords(shape, func(c []int) {
		copy(src, c)
		src[axis] = idx[c[axis]]
		out.El = append(out.El, a.At(src))
	})
	return out, true
}

func c10Build(d ref.DT, shapes [][]int, lays []string) ([]*atlas.Built, []ref.Arr) {
	var bs []*atlas.Built
	var arrs []ref.Arr
	base := 1
	for i, s := range shapes {
		n := ref.Prod(s)
		vals := make([]interface{}, n)
		for j := range vals {
			vals[j] = d.Code(base + j)
		}
		base += n
		if lays[i] == "=0" && i > 0 {
			// the SAME tensor as operand 0, given once more
			bs = append(bs, bs[0])
			arrs = append(arrs, arrs[0])
			continue
		}
		b := buildVerified(d, s, vals, lays[i])
		if b == nil {
			return nil, nil
		}
		bs = append(bs, b)
		arrs = append(arrs, ref.Arr{DT: d, Shape: s, El: vals})
	}
	return bs, arrs
}

func c10Join(r *core.Run, op string, d ref.DT, shapes [][]int, lays []string, axis int, api string) {
	var ss []string
	for _, s := range shapes {
		ss = append(ss, shapeStr(s))
	}
	id := fmt.Sprintf(propPfx+"C10|%s|%s|%s|lay=%s|axis=%d|%s", op, d.Name, strings.Join(ss, "+"), strings.Join(lays, ","), axis, api)
	if r.ReplayCase != "" && id != r.ReplayCase {
		return
	}
	r.Case(id, true, func() *core.Fail {
		tensor.VerifResetPools()
		bs, arrs := c10Build(d, shapes, lays)
		if bs == nil {
			r.Dim("skipped", "unbuildable")
			return nil
		}
		for _, b := range bs {
			r.State(d.Name + "|" + atlas.StateKey(b.T, atlas.RootPtr(b.Root)))
		}
		var snaps []atlas.Snap
		for _, b := range bs {
			snaps = append(snaps, b.Snapshot())
		}
		var want ref.Arr
		var valid bool
		switch op {
		case "Concat":
			want, valid = concatModel(arrs, axis)
		case "Stack":
			want, valid = stackModel(arrs, axis)
		case "Hstack":
			ax := 1
			if len(shapes[0]) == 1 {
				ax = 0
			}
			want, valid = concatModel(arrs, ax)
		case "Vstack":
			want, valid = concatModel(arrs, 0)
			if len(shapes[0]) < 2 {
				valid = false
			}
		}
		var others []*tensor.Dense
		var othersT []tensor.Tensor
		for _, b := range bs[1:] {
			others = append(others, b.T)
			othersT = append(othersT, b.T)
		}
		var res *tensor.Dense
		o := call(func() (e error) {
			if api == "func" {
				var t tensor.Tensor
				switch op {
				case "Concat":
					t, e = tensor.Concat(axis, bs[0].T, othersT...)
				case "Stack":
					t, e = tensor.Stack(axis, bs[0].T, othersT...)
				}
				if t != nil {
					res, _ = t.(*tensor.Dense)
				}
				return
			}
			switch op {
			case "Concat":
				res, e = bs[0].T.Concat(axis, others...)
			case "Stack":
				res, e = bs[0].T.Stack(axis, others...)
			case "Hstack":
				res, e = bs[0].T.Hstack(others...)
			case "Vstack":
				res, e = bs[0].T.Vstack(others...)
			}
			return
		})
		r.Op(1)
		r.Outcome(op + ":" + o.Class)
		for i, b := range bs {
			if ch := b.Changed(snaps[i]); ch != "" {
				return core.F("operand-changed", fmt.Sprintf("op%d", i), "%s changed operand %d (%s %v): %s", op, i, lays[i], shapes[i], ch)
			}
		}
		if !valid {
			switch o.Class {
			case "ok":
				if len(bs) == 1 {
					return nil
				}
				return core.F("accepted-invalid", "x", "%s of non-fitting shapes %v axis %d was computed (shape %v)", op, shapes, axis, res.Shape())
			case "panic":
				return core.F("panic-instead-of-error", "x", "%s of non-fitting shapes %v axis %d panicked: %v", op, shapes, axis, o.Panic)
			}
			return nil
		}
		if o.Class != "ok" && lenient {
			return nil
		}
		if o.Class != "ok" {
			tag := ""
			if o.Class == "panic" && op != "Stack" {
				// precondition of F-C10-concat-vector-shaped-view: operands of shape (1,n)/(n,1), one of them needing an iterator
				vec, iter := false, true
				for i, b := range bs {
					if len(shapes[i]) == 2 && tensor.Shape(shapes[i]).IsVector() && b.T.RequiresIterator() {
						vec = true
					}
				}
				if vec && iter {
					tag = "[KF:concat-vector-shaped-view]"
				}
			}
			return core.F("unexpected-refusal"+tag, "x", "%s of %v (layouts %v) axis %d refused: %s", op, shapes, lays, axis, o)
		}
		if res == nil {
			return core.F("wrong-type", "nil", "nil result")
		}
		if len(bs) > 1 {
			for _, b := range bs {
				if overlaps(res, b.Root) {
					return core.F("alias-unexpected", "al", "%s result shares storage with an operand", op)
				}
			}
		}
		f := cmpArr(res, want, fmt.Sprintf("%s of %v layouts %v axis %d", op, shapes, lays, axis), false)
		if f != nil && op == "Stack" && len(bs) == 1 && f.Kind == "wrong-shape" && res == bs[0].T {
			f.Kind += "[KF:stack-single-operand-identity]"
		}
		return f
	})
}

func c10Repeat(r *core.Run, d ref.DT, shape []int, lay string, axis int, reps []int, api string) {
	id := fmt.Sprintf(propPfx+"C10|Repeat|%s|%s|%s|axis=%d|reps=%s|%s", d.Name, shapeStr(shape), lay, axis, strings.ReplaceAll(fmt.Sprint(reps), " ", ","), api)
	if r.ReplayCase != "" && id != r.ReplayCase {
		return
	}
	r.Case(id, true, func() *core.Fail {
		tensor.VerifResetPools()
		bs, arrs := c10Build(d, [][]int{shape}, []string{lay})
		if bs == nil {
			r.Dim("skipped", "unbuildable")
			return nil
		}
		b := bs[0]
		snap := b.Snapshot()
		want, valid := repeatModel(arrs[0], axis, reps)
		ax := axis
		if axis < 0 {
			ax = tensor.AllAxes
		}
		creps := append(make([]int, 0, len(reps)+2), reps...)
		keep := ref.CopyInts(creps)
		var res *tensor.Dense
		o := call(func() (e error) {
			var t tensor.Tensor
			switch api {
			case "method":
				t, e = b.T.Repeat(ax, creps...)
			case "func":
				t, e = tensor.Repeat(b.T, ax, creps...)
			case "reuse":
				if !valid {
					return fmt.Errorf("n/a")
				}
				reuse := tensor.New(tensor.Of(d.D), tensor.WithShape(want.Shape...))
				t, e = tensor.RepeatReuse(b.T, reuse, ax, creps...)
			}
			if t != nil {
				res, _ = t.(*tensor.Dense)
			}
			return
		})
		r.Op(1)
		r.Outcome("Repeat:" + o.Class)
		if ch := b.Changed(snap); ch != "" {
			return core.F("operand-changed", "op", "Repeat changed its operand: %s", ch)
		}
		if !ref.EqInts(creps, keep) {
			return core.F("caller-slice-mutated", "reps", "Repeat changed the caller's repeats slice %v -> %v", keep, creps)
		}
		if !valid {
			if o.Class == "ok" {
				return core.F("accepted-invalid", "x", "Repeat with non-fitting counts %v on axis %d of %v was computed", reps, axis, shape)
			}
			if o.Class == "panic" {
				return core.F("panic-instead-of-error", "x", "Repeat with non-fitting counts %v on axis %d of %v panicked: %v", reps, axis, shape, o.Panic)
			}
			return nil
		}
		if o.Class != "ok" {
			if lenient {
				return nil
			}
			return core.F("unexpected-refusal", "x", "Repeat(%d, %v) of %v layout %s refused: %s", axis, reps, shape, lay, o)
		}
		if res == nil {
			return core.F("wrong-type", "nil", "nil result")
		}
		if ref.Prod(want.Shape) == 0 {
			if ref.Prod(res.Shape()) != 0 && res.DataSize() != 0 {
				return core.F("wrong-shape", "zero", "Repeat with all-zero counts: result shape %v, expected %v", res.Shape(), want.Shape)
			}
			return nil
		}
		return cmpArr(res, want, fmt.Sprintf("Repeat(axis %d, %v) of %v layout %s", axis, reps, shape, lay), false)
	})
}

func runC10(r *core.Run) {
	quick := isQuick(r)
	dts := ref.W6
	base := [][]int{{3}, {2, 3}, {3, 2}, {1, 3}, {3, 1}, {2, 1, 3}, {2, 3, 2}, {2, 2, 2, 2}}
	if !quick {
		base = append(base, []int{4}, []int{3, 3}, []int{1, 1}, []int{3, 3, 3}, []int{2, 1, 2, 3}, []int{1, 2, 1})
	}
	r.SetBound("shapes", fmt.Sprint(base))
	lays := atlas.L5
	var combos func(k int) [][]string
	combos = func(k int) [][]string {
		if k == 0 {
			return [][]string{{}}
		}
		var out [][]string
		for _, c := range combos(k - 1) {
			for _, l := range lays {
				out = append(out, append(append([]string{}, c...), l))
			}
		}
		return out
	}
	// the refusal space of rank mismatches: operands of equal size whose shapes differ in rank or arrangement (a vector
	// against a column or a row, a matrix against its transpose shape or its flattening) - NumPy refuses all of them
	misfits := [][][]int{{{3}, {3, 1}}, {{3}, {1, 3}}, {{3, 1}, {3}}, {{1, 3}, {3}}, {{3, 1}, {1, 3}}, {{2, 3}, {3, 2}}, {{2, 3}, {6}}, {{6}, {2, 3}}, {{2, 1, 3}, {2, 3}}, {{2, 3}, {2, 1, 3}}, {{2}, {2, 1}, {2}}, {{1, 1}, {1}}}
	for _, d := range []ref.DT{ref.Float64, ref.Uint8} {
		for _, ms := range misfits {
			if !r.Take() {
				continue
			}
			lc := make([]string, len(ms))
			for i := range lc {
				lc[i] = "C"
			}
			for axis := 0; axis <= len(ms[0]); axis++ {
				for _, api := range []string{"method", "func"} {
					c10Join(r, "Stack", d, ms, lc, axis, api)
					if axis < len(ms[0]) {
						c10Join(r, "Concat", d, ms, lc, axis, api)
					}
				}
			}
		}
	}
	for _, d := range dts {
		for _, s := range base {
			rank := len(s)
			for nops := 1; nops <= 4; nops++ {
				var lcs [][]string
				switch {
				case nops <= 2 || (nops == 3 && (!quick || d.Name == "float32")):
					lcs = combos(nops)
				case nops == 3:
					lcs = [][]string{{"C", "C", "C"}, {"S", "T", "C"}, {"C", "SS", "M"}, {"T", "T", "T"}}
				default:
					lcs = [][]string{{"C", "C", "C", "C"}, {"S", "T", "SS", "C"}, {"C", "M", "C", "T"}}
				}
				for _, lc := range lcs {
					if !r.Take() {
						continue
					}
					if r.Expired() {
						return
					}
					// concat: operand i has dim (s[axis] + i%2) along the axis
					for axis := 0; axis < rank; axis++ {
						shapes := make([][]int, nops)
						for i := range shapes {
							shapes[i] = ref.CopyInts(s)
							if axis >= 0 && axis < rank {
								shapes[i][axis] = s[axis] + i%2
							}
						}
						for _, api := range []string{"method", "func"} {
							c10Join(r, "Concat", d, shapes, lc, axis, api)
						}
					}
					// stack: equal shapes, axis 0..rank (+ invalid)
					eq := make([][]int, nops)
					for i := range eq {
						eq[i] = s
					}
					for axis := 0; axis <= rank; axis++ {
						for _, api := range []string{"method", "func"} {
							c10Join(r, "Stack", d, eq, lc, axis, api)
						}
					}
					c10Join(r, "Hstack", d, eq, lc, 0, "method")
					c10Join(r, "Vstack", d, eq, lc, 0, "method")
					// non-fitting shapes
					if nops >= 2 && rank >= 2 {
						bad := make([][]int, nops)
						for i := range bad {
							bad[i] = ref.CopyInts(s)
						}
						bad[nops-1][rank-1]++
						c10Join(r, "Concat", d, bad, lc, 0, "method")
						c10Join(r, "Stack", d, bad, lc, 0, "method")
					}
				}
			}
			// the same tensor given several times (x joined with itself), alone and next to another operand
			for _, l0 := range lays {
				if !r.Take() {
					continue
				}
				for _, lc := range [][]string{{l0, "=0"}, {l0, "=0", "=0"}, {l0, "C", "=0"}, {l0, "=0", "S"}} {
					eq := make([][]int, len(lc))
					for i := range eq {
						eq[i] = s
					}
					for axis := 0; axis <= rank; axis++ {
						for _, api := range []string{"method", "func"} {
							c10Join(r, "Stack", d, eq, lc, axis, api)
							if axis < rank {
								c10Join(r, "Concat", d, eq, lc, axis, api)
							}
						}
					}
					c10Join(r, "Hstack", d, eq, lc, 0, "method")
					c10Join(r, "Vstack", d, eq, lc, 0, "method")
				}
			}
			// repeat
			for _, lay := range lays {
				if !r.Take() {
					continue
				}
				for axis := -1; axis < rank; axis++ {
					n := ref.Prod(s)
					if axis >= 0 {
						n = s[axis]
					}
					var repsList [][]int
					for k := 0; k <= 3; k++ {
						repsList = append(repsList, []int{k})
					}
					if n <= 4 && n > 1 {
						// every per-element count vector over {0,1,2}
						tot := 1
						for i := 0; i < n; i++ {
							tot *= 3
						}
						for m := 0; m < tot; m++ {
							v := make([]int, n)
							x := m
							for i := range v {
								v[i] = x % 3
								x /= 3
							}
							repsList = append(repsList, v)
						}
					}
					if lay == "C" || lay == "S" {
						// large counts: runs of the result that are long in BYTES (copy loops that switch strategy by run length);
						// counts chosen on both sides of powers of two, up to runs of 70 one-byte elements
						for _, k := range []int{5, 6, 7, 9, 10, 11, 15, 17, 18, 33, 34, 35, 66, 67, 70} {
							if k > 20 && len(s) > 2 {
								continue
							}
							repsList = append(repsList, []int{k})
						}
						if n >= 2 && n <= 4 {
							v := make([]int, n)
							for i := range v {
								v[i] = 6 + 5*i
							}
							repsList = append(repsList, v)
						}
					}
					repsList = append(repsList, make([]int, n+1)) // non-fitting count vector
					for _, reps := range repsList {
						for _, api := range []string{"method", "func", "reuse"} {
							if api != "method" && quick && len(reps) > 1 && d.Name != "float32" {
								continue
							}
							c10Repeat(r, d, s, lay, axis, reps, api)
						}
					}
				}
			}
		}
	}
}
