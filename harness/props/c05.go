package props

import (
	"fmt"
	"strings"

	"gorgonia.org/tensor"
	"verifharness/atlas"
	"verifharness/core"
	"verifharness/ref"
)

func init() {
	register(&Def{ID: "C05", Engine: "E2", Run: runC05,
		Rule: "for every access pattern (atlas layouts + view-graph states) an explicit-state BFS over the iterator state machine with alphabet {Next, NextValidity, NextValid, NextInvalid, Reset, SetReverse, SetForward, Start} (Coord and Done observed in every state) to depth size+3, states deduplicated on (model position, direction, private cursor); " +
			"the channel form (Chan) and the generic constructors (IteratorFromDense, t.Iterator) must deliver the same sequence; masked: every mask over <= N elements x the same machine; multi-iterator: every ordered pair and triple of equal-shape layouts. one case = one access pattern (or one mask / one tuple) with its complete state graph; non-trivial = size >= 2",
		Assume: []string{"expected offsets come from the model's cell map minus the window offset; states whose access pattern differs from the model (C02/C03 findings) are skipped", "Coord is documented as the NEXT coordinate; it is not judged once the iterator is exhausted"}})
}

type itModel struct {
	pos int // number of positions consumed in the current direction
	rev bool
}

type itOp string

var itOps = []itOp{"Next", "NextValidity", "NextValid", "NextInvalid", "Reset", "SetReverse", "SetForward", "Start"}

// itSim is the model of flat / masked iteration over n positions with expected offsets and per-position mask.
type itSim struct {
	offs   []int
	coords [][]int
	mask   []bool // nil = unmasked (per logical position)
}

func (s *itSim) at(m itModel) int { // index into offs of the position the model is at
	if m.rev {
		return len(s.offs) - 1 - m.pos
	}
	return m.pos
}

type itExpect struct {
	idx     int
	valid   bool
	skip    int
	err     bool
	chkSkip bool
	chkIdx  bool
}

func (s *itSim) step(m itModel, op itOp, masked bool) (itModel, itExpect) {
	n := len(s.offs)
	sign := 1
	if m.rev {
		sign = -1
	}
	switch op {
	case "Reset":
		return itModel{0, m.rev}, itExpect{}
	case "SetReverse":
		return itModel{0, true}, itExpect{}
	case "SetForward":
		return itModel{0, false}, itExpect{}
	case "Start":
		m = itModel{0, m.rev}
		fallthrough
	case "Next", "NextValidity":
		if m.pos >= n {
			return m, itExpect{err: true}
		}
		i := s.at(m)
		e := itExpect{idx: s.offs[i], valid: true, chkIdx: true}
		if s.mask != nil {
			e.valid = !s.mask[i]
		}
		m.pos++
		return m, e
	case "NextValid", "NextInvalid":
		wantMasked := op == "NextInvalid"
		if !masked {
			if op == "NextInvalid" {
				return m, itExpect{err: true} // an unmasked iterator has no invalid element; must not advance
			}
			if m.pos >= n {
				return m, itExpect{err: true}
			}
			i := s.at(m)
			m.pos++
			e := itExpect{idx: s.offs[i], skip: sign, chkIdx: true, chkSkip: n > 1 || len(s.coords[0]) > 0}
			return m, e
		}
		cnt := 0
		for m.pos < n {
			i := s.at(m)
			m.pos++
			cnt++
			if s.mask[i] == wantMasked {
				return m, itExpect{idx: s.offs[i], skip: sign * cnt, chkIdx: true, chkSkip: true}
			}
		}
		return m, itExpect{err: true, skip: sign * cnt, chkSkip: true}
	}
	panic(op)
}

type anyIter interface {
	Next() (int, error)
	NextValidity() (int, bool, error)
	NextValid() (int, int, error)
	NextInvalid() (int, int, error)
	Reset()
	SetReverse()
	SetForward()
	Start() (int, error)
	Coord() []int
	Done() bool
}

func itApply(it anyIter, op itOp) (idx int, valid bool, skip int, err error) {
	valid = true
	switch op {
	case "Next":
		idx, err = it.Next()
	case "NextValidity":
		idx, valid, err = it.NextValidity()
	case "NextValid":
		idx, skip, err = it.NextValid()
	case "NextInvalid":
		idx, skip, err = it.NextInvalid()
	case "Reset":
		it.Reset()
	case "SetReverse":
		it.SetReverse()
	case "SetForward":
		it.SetForward()
	case "Start":
		idx, err = it.Start()
	}
	return
}

// itBFS explores the iterator state machine; mk creates a fresh iterator and returns a func giving its private
// cursor key.
func itBFS(r *core.Run, sim *itSim, masked bool, mk func() (anyIter, func() string), maxDepth int) *core.Fail {
	n := len(sim.offs)
	type qe struct {
		path []itOp
		m    itModel
	}
	seen := map[string]bool{}
	frontier := []qe{{nil, itModel{}}}
	var fails []string
	var sig []string
	kinds := map[string]bool{}
	addFail := func(kind, path string, format string, a ...interface{}) {
		kinds[kind] = true
		sig = append(sig, kind+"@"+path)
		if len(fails) < 6 {
			fails = append(fails, kind+" after ["+path+"]: "+fmt.Sprintf(format, a...))
		}
	}
	pstr := func(p []itOp, op itOp) string {
		parts := make([]string, 0, len(p)+1)
		for _, o := range p {
			parts = append(parts, string(o))
		}
		if op != "" {
			parts = append(parts, string(op))
		}
		return strings.Join(parts, ",")
	}
	for depth := 0; depth <= maxDepth && len(frontier) > 0; depth++ {
		var next []qe
		for _, e := range frontier {
			for _, op := range itOps {
				// replay
				it, key := mk()
				ok := true
				func() {
					defer func() {
						if p := recover(); p != nil {
							ok = false
							addFail("panic", pstr(e.path, op), "%v", p)
						}
					}()
					for _, o := range e.path {
						itApply(it, o)
					}
					nm, exp := sim.step(e.m, op, masked)
					idx, valid, skip, err := itApply(it, op)
					r.Op(1)
					switch {
					case err != nil:
						r.Outcome(string(op) + ":refused")
					case nm.pos >= n:
						r.Outcome(string(op) + ":ok-exhausts")
					default:
						r.Outcome(string(op) + ":ok")
					}
					ps := pstr(e.path, op)
					if exp.err {
						if err == nil {
							addFail("accepted-invalid", ps, "%s on an exhausted iterator (or NextInvalid without mask) returned offset %d without error", op, idx)
						}
					} else if op != "Reset" && op != "SetReverse" && op != "SetForward" {
						if err != nil {
							addFail("unexpected-refusal", ps, "%s failed at position %d of %d: %v", op, e.m.pos, n, err)
						} else if exp.chkIdx && idx != exp.idx {
							addFail("wrong-value", ps, "%s yielded offset %d, expected %d (position %d, reverse=%v)", op, idx, exp.idx, e.m.pos, nm.rev)
						}
						if op == "NextValidity" && err == nil && valid != exp.valid {
							addFail("wrong-value", ps, "NextValidity reported valid=%v, expected %v", valid, exp.valid)
						}
					}
					if exp.chkSkip && skip != exp.skip && (op == "NextValid" || op == "NextInvalid") && (err == nil) == !exp.err {
						addFail("wrong-value", ps, "%s skip count %d, expected %d", op, skip, exp.skip)
					}
					// observers
					if done := it.Done(); done != (nm.pos >= n) && n > 0 {
						addFail("wrong-value", ps, "Done()=%v but %d of %d positions consumed", done, nm.pos, n)
					}
					if nm.pos < n && len(sim.coords) == n {
						want := sim.coords[sim.at(nm)]
						if got := it.Coord(); !ref.EqInts(got, want) {
							addFail("wrong-value", ps, "Coord()=%v, expected next coordinate %v", got, want)
						}
					}
					k := fmt.Sprintf("%d/%v/%s", nm.pos, nm.rev, key())
					r.StateH(core.H64(k) ^ core.H64(fmt.Sprint(sim.offs)))
					if !seen[k] {
						seen[k] = true
						next = append(next, qe{append(append([]itOp{}, e.path...), op), nm})
					}
				}()
				_ = ok
				if len(sig) > 200 {
					break
				}
			}
		}
		frontier = next
	}
	if len(fails) == 0 {
		return nil
	}
	var ks []string
	for k := range kinds {
		ks = append(ks, k)
	}
	sortStrings(ks)
	return core.F(strings.Join(ks, "+"), fmt.Sprintf("%x", core.H64(strings.Join(sig, ";"))), "%s", strings.Join(fails, " ; "))
}

func flatKey(fi *tensor.FlatIterator) func() string {
	return func() string {
		tr, nx, la, dn, rv := tensor.VerifFlatIterState(fi)
		return fmt.Sprint(tr, nx, la, dn, rv)
	}
}

// simFor builds the model of iteration over a built tensor (offsets relative to its storage window).
func simFor(b *atlas.Built) (*itSim, bool) {
	cells, ok := b.APCells()
	if !ok || !ref.EqInts(cells, b.View.Cell) {
		return nil, false
	}
	m := tensor.VerifMetaOf(b.T)
	off := int(m.RawPtr-atlas.RootPtr(b.Root)) / m.ElSize
	s := &itSim{}
	ref.ForCoords(b.View.Shape, func(c []int) { s.coords = append(s.coords, ref.CopyInts(c)) })
	for _, c := range b.View.Cell {
		s.offs = append(s.offs, c-off)
	}
	return s, true
}

func runC05(r *core.Run) {
	quick := isQuick(r)
	d := ref.Float64
	// ---- flat iterators over every access pattern
	shapes := ref.DedupShapes(append(ref.ShapesUpTo(0, 3, 3), [][]int{{2, 2, 2, 2}, {2, 1, 2, 3}, {1, 1, 1, 3}, {1, 3, 1, 1}, {3, 1, 1, 1}, {4}, {5}, {1, 5}, {5, 1}, {1, 1, 4}, {1, 4, 1}, {4, 1, 1}}...))
	vgDepth := 1
	if !quick {
		shapes = ref.DedupShapes(append(ref.ShapesUpTo(0, 3, 4), append(ref.Shapes(4, 2), [][]int{{2, 1, 2, 3}, {1, 1, 1, 3}, {1, 3, 1, 1}, {3, 1, 1, 1}, {5}, {1, 5}, {5, 1}, {1, 1, 4}, {1, 4, 1}, {4, 1, 1}, {3, 3, 3, 3}}...)...))
		vgDepth = 2
	}
	r.SetBound("flat", fmt.Sprintf("%d shapes (rank 0-4, all vector-like forms), atlas layouts C,F,T,S,SS,ST,TS,FS,FT + view graph depth %d (depth 2 only for <=16 elements); state machine depth size+3", len(shapes), vgDepth))
	for _, shape := range shapes {
		n := ref.Prod(shape)
		type stt struct {
			id string
			mk func() *atlas.Built
		}
		var states []stt
		for _, lay := range []string{"C", "F", "T", "S", "SS", "ST", "TS", "FS", "FT", "DC", "DT"} {
			lay := lay
			states = append(states, stt{lay, func() *atlas.Built {
				vals := make([]interface{}, n)
				for i := range vals {
					vals[i] = d.Code(i)
				}
				b, err := atlas.Build(d, shape, vals, lay)
				if err != nil {
					return nil
				}
				return b
			}})
		}
		if len(shape) >= 1 {
			dep := vgDepth
			if n > 16 {
				dep = 1
			}
			for _, fort := range []bool{false, true} {
				if fort && len(shape) < 2 {
					continue
				}
				fort := fort
				for _, path := range atlas.ViewStates(shape, fort, dep, true) {
					if len(path) == 0 {
						continue
					}
					path := path
					pre := "vg:"
					if fort {
						pre = "vgF:"
					}
					states = append(states, stt{pre + atlas.PathString(path), func() *atlas.Built {
						b, _ := atlas.Replay(d, shape, fort, path)
						return b
					}})
				}
			}
		}
		for _, st := range states {
			if !r.Take() {
				continue
			}
			if r.Expired() {
				return
			}
			id := fmt.Sprintf("C05|flat|%s|%s", shapeStr(shape), st.id)
			if r.ReplayCase != "" && id != r.ReplayCase {
				continue
			}
			tensor.VerifResetPools()
			b := st.mk()
			if b == nil {
				r.Dim("skipped_states", "unbuildable")
				continue
			}
			sim, ok := simFor(b)
			if !ok {
				r.Dim("skipped_states", "access-pattern-differs-from-model(C02/C03)")
				continue
			}
			r.State(atlas.StateKey(b.T, atlas.RootPtr(b.Root)))
			r.Dim("state_kind", strings.SplitN(st.id, ":", 2)[0])
			r.Case(id, len(sim.offs) >= 2, func() *core.Fail {
				f := itBFS(r, sim, false, func() (anyIter, func() string) {
					fi := tensor.FlatIteratorFromDense(b.T)
					return fi, flatKey(fi)
				}, len(sim.offs)+3)
				if f != nil {
					m := tensor.VerifMetaOf(b.T)
					f.Kind += c05Tag(m, b.T)
					return f
				}
				// the channel form of the same iterator, and the generic constructors, deliver the same sequence
				for _, form := range []string{"Chan", "IteratorFromDense", "t.Iterator"} {
					var got []int
					o := call(func() error {
						switch form {
						case "Chan":
							for i := range tensor.FlatIteratorFromDense(b.T).Chan() {
								got = append(got, i)
							}
						case "IteratorFromDense":
							it := tensor.IteratorFromDense(b.T)
							for i, e := it.Next(); e == nil; i, e = it.Next() {
								got = append(got, i)
							}
						case "t.Iterator":
							it := b.T.Iterator()
							for i, e := it.Next(); e == nil; i, e = it.Next() {
								got = append(got, i)
							}
						}
						return nil
					})
					r.Op(len(got) + 1)
					r.Outcome(form + ":" + o.Class)
					if o.Class != "ok" || !ref.EqInts(got, sim.offs) {
						return core.F("wrong-value", form, "%s yields offsets %v (%s), expected %v", form, got, o, sim.offs)
					}
				}
				return nil
			})
		}
	}
	// ---- masked iterators: every mask over <= N elements
	maxN := 6
	if !quick {
		maxN = 8
	}
	r.SetBound("masked", fmt.Sprintf("every mask over <= %d elements for shapes (n),(1,n),(n,1),(a,b),(2,2,2) and layouts C, S (contiguous row view), T", maxN))
	var mshapes [][]int
	for n := 1; n <= maxN; n++ {
		mshapes = append(mshapes, []int{n})
		if n >= 2 {
			mshapes = append(mshapes, []int{1, n}, []int{n, 1})
		}
		for a := 2; a*2 <= n; a++ {
			if n%a == 0 {
				mshapes = append(mshapes, []int{a, n / a})
			}
		}
	}
	if maxN >= 8 {
		mshapes = append(mshapes, []int{2, 2, 2})
	}
	mshapes = ref.DedupShapes(mshapes)
	for _, shape := range mshapes {
		n := ref.Prod(shape)
		for _, lay := range []string{"C", "T", "Srow"} {
			if (lay == "T" || lay == "Srow") && len(shape) < 2 {
				continue
			}
			for mbits := 0; mbits < 1<<uint(n); mbits++ {
				if !r.Take() {
					continue
				}
				if r.Expired() {
					return
				}
				id := fmt.Sprintf("C05|masked|%s|%s|mask=%0*b", shapeStr(shape), lay, n, mbits)
				if r.ReplayCase != "" && id != r.ReplayCase {
					continue
				}
				mbits, lay := mbits, lay
				mkT := func() (*tensor.Dense, *itSim) {
					return c05Masked(shape, lay, mbits)
				}
				t0, sim := mkT()
				if t0 == nil {
					r.Dim("skipped_states", "masked-unbuildable:"+lay)
					continue
				}
				r.Case(id, n >= 2, func() *core.Fail {
					return itBFS(r, sim, true, func() (anyIter, func() string) {
						t, _ := mkT()
						mi := tensor.FlatMaskedIteratorFromDense(t)
						return mi, flatKey(mi.FlatIterator)
					}, n+3)
				})
			}
		}
	}
	c05Multi(r)
	c05MultiMasked(r)
}

// c05Tag recognises the precondition of the recorded reverse-iteration finding.
func c05Tag(m tensor.VerifMeta, t *tensor.Dense) string {
	return ""
}

// c05Masked builds a masked tensor (storage mask bit i = bit i of mbits over the tensor's own storage order) and
// the model of its iteration.
func c05Masked(shape []int, lay string, mbits int) (*tensor.Dense, *itSim) {
	n := ref.Prod(shape)
	back := make([]float64, n)
	mask := make([]bool, n)
	for i := range back {
		back[i] = float64(i)
		mask[i] = mbits&(1<<uint(i)) != 0
	}
	sim := &itSim{}
	var t *tensor.Dense
	switch lay {
	case "C":
		t = tensor.New(tensor.WithShape(shape...), tensor.WithBacking(back, mask))
		v := ref.RootC(shape)
		ref.ForCoords(shape, func(c []int) { sim.coords = append(sim.coords, ref.CopyInts(c)) })
		for _, c := range v.Cell {
			sim.offs = append(sim.offs, c)
			sim.mask = append(sim.mask, mask[c])
		}
	case "T":
		rs := make([]int, len(shape))
		perm := make([]int, len(shape))
		for i := range shape {
			rs[i] = shape[len(shape)-1-i]
			perm[i] = len(shape) - 1 - i
		}
		t = tensor.New(tensor.WithShape(rs...), tensor.WithBacking(back, mask))
		if err := t.T(); err != nil {
			return nil, nil
		}
		v := ref.RootC(rs).Permute(perm)
		if !ref.EqInts(t.Shape(), shape) {
			return nil, nil
		}
		ref.ForCoords(shape, func(c []int) { sim.coords = append(sim.coords, ref.CopyInts(c)) })
		for _, c := range v.Cell {
			sim.offs = append(sim.offs, c)
			sim.mask = append(sim.mask, mask[c])
		}
	case "Srow": // rows 1.. of a root with one extra leading row: a contiguous view with an offset mask window
		rs := ref.CopyInts(shape)
		rs[0]++
		nb := ref.Prod(rs)
		rowLen := n / shape[0]
		back2 := make([]float64, nb)
		mask2 := make([]bool, nb)
		for i := range back2 {
			back2[i] = float64(i)
			if i >= rowLen {
				mask2[i] = mbits&(1<<uint(i-rowLen)) != 0
			} else {
				mask2[i] = i%2 == 0
			}
		}
		root := tensor.New(tensor.WithShape(rs...), tensor.WithBacking(back2, mask2))
		v, err := root.Slice(tensor.S(1, rs[0]))
		if err != nil {
			return nil, nil
		}
		t = v.(*tensor.Dense)
		if !ref.EqInts(t.Shape(), shape) {
			return nil, nil
		}
		ref.ForCoords(shape, func(c []int) { sim.coords = append(sim.coords, ref.CopyInts(c)) })
		for i := 0; i < n; i++ {
			sim.offs = append(sim.offs, i)
			sim.mask = append(sim.mask, mask2[i+rowLen])
		}
	}
	if !t.IsMasked() {
		return nil, nil
	}
	return t, sim
}

// c05Multi: multi-iterators over pairs and triples of equal-shape tensors of different layouts.
func c05Multi(r *core.Run) {
	d := ref.Float64
	shapes := [][]int{{3}, {2, 3}, {3, 2}, {1, 3}, {3, 1}, {2, 2}, {2, 3, 2}, {2, 2, 2}, {3, 1, 2}}
	if !isQuick(r) {
		shapes = append(shapes, []int{4}, []int{3, 3}, []int{4, 3}, []int{2, 3, 4}, []int{2, 2, 2, 2}, []int{2, 1, 2, 3})
	}
	lays := []string{"C", "T", "S", "SS", "F", "ST"}
	r.SetBound("multi", fmt.Sprintf("shapes %v x every ordered pair and triple of layouts %v; forward sweep, Reset in the middle, then full sweep", shapes, lays))
	for _, shape := range shapes {
		n := ref.Prod(shape)
		vals := make([]interface{}, n)
		for i := range vals {
			vals[i] = d.Code(i)
		}
		var tuples [][]string
		for _, a := range lays {
			for _, b := range lays {
				tuples = append(tuples, []string{a, b})
				for _, c := range lays {
					tuples = append(tuples, []string{a, b, c})
				}
			}
		}
		for _, tu := range tuples {
			if !r.Take() {
				continue
			}
			if r.Expired() {
				return
			}
			id := fmt.Sprintf("C05|multi|%s|%s", shapeStr(shape), strings.Join(tu, ","))
			if r.ReplayCase != "" && id != r.ReplayCase {
				continue
			}
			tu := tu
			r.Case(id, n >= 2, func() *core.Fail {
				tensor.VerifResetPools()
				var ts []tensor.DenseTensor
				var sims []*itSim
				for _, lay := range tu {
					b, err := atlas.Build(d, shape, vals, lay)
					if err != nil {
						return nil
					}
					sim, ok := simFor(b)
					if !ok {
						return nil
					}
					ts = append(ts, b.T)
					sims = append(sims, sim)
				}
				var mi *tensor.MultIterator
				o := call(func() error { mi = tensor.MultIteratorFromDense(ts...); return nil })
				if o.Class != "ok" {
					return core.F("unexpected-refusal", "mk", "MultIteratorFromDense(%v): %s", tu, o)
				}
				sweep := func(upto int, tag string) *core.Fail {
					for p := 0; p < upto; p++ {
						var err error
						oc := call(func() error { _, err = mi.Next(); return nil })
						r.Op(1)
						if oc.Class != "ok" || err != nil {
							return core.F("unexpected-refusal", tag, "multi-iterator %v: Next failed at position %d of %d: %v %v", tu, p, n, err, oc.Panic)
						}
						for j := range ts {
							if got := mi.LastIndex(j); got != sims[j].offs[p] {
								return core.F("wrong-value", fmt.Sprintf("%s-p%d-j%d", tag, p, j), "multi-iterator over layouts %v of shape %v (%s): position %d tensor %d (%s) offset %d, its own flat iterator yields %d", tu, shape, tag, p, j, tu[j], got, sims[j].offs[p])
							}
						}
					}
					return nil
				}
				tagKF := func(f *core.Fail) *core.Fail {
					// DEFECT precondition of F-C05-multi-rowvector-stride: row-vector shape (1,n) and an operand whose
					// stride along the long axis is not 1 (BroadcastStrides' vector shortcut takes strides[0])
					if f.Kind == "wrong-value" && tensor.Shape(shape).IsRowVec() {
						for _, t := range ts {
							if st := t.Strides(); len(st) == 2 && st[1] != 1 {
								f.Kind += "[KF:multi-rowvector-stride]"
								break
							}
						}
					}
					return f
				}
				if f := sweep((n+1)/2, "first-half"); f != nil {
					return tagKF(f)
				}
				mi.Reset()
				if f := sweep(n, "after-reset"); f != nil {
					return tagKF(f)
				}
				var err error
				call(func() error { _, err = mi.Next(); return nil })
				if err == nil {
					return core.F("accepted-invalid", "exh", "multi-iterator %v yields more than %d positions", tu, n)
				}
				// a fresh multi-iterator switched to reverse yields, for each tensor, the offsets of its own flat iterator in
				// reverse; Start on a fresh one delivers the first position
				var mr *tensor.MultIterator
				if o := call(func() error { mr = tensor.MultIteratorFromDense(ts...); mr.SetReverse(); return nil }); o.Class != "ok" {
					return tagKF(core.F("unexpected-refusal", "rev", "MultIteratorFromDense(%v).SetReverse: %s", tu, o))
				}
				for p := n - 1; p >= 0; p-- {
					var err error
					oc := call(func() error { _, err = mr.Next(); return nil })
					r.Op(1)
					if oc.Class != "ok" || err != nil {
						return tagKF(core.F("unexpected-refusal", "rev", "reversed multi-iterator %v: Next failed at position %d of %d: %v %v", tu, p, n, err, oc.Panic))
					}
					for j := range ts {
						if got := mr.LastIndex(j); got != sims[j].offs[p] {
							return tagKF(core.F("wrong-value", fmt.Sprintf("rev-p%d-j%d", p, j), "reversed multi-iterator over layouts %v of shape %v: position %d tensor %d (%s) offset %d, its own flat iterator yields %d", tu, shape, p, j, tu[j], got, sims[j].offs[p]))
						}
					}
				}
				call(func() error { _, err = mr.Next(); return nil })
				if err == nil {
					return core.F("accepted-invalid", "rev-exh", "reversed multi-iterator %v yields more than %d positions", tu, n)
				}
				var ms *tensor.MultIterator
				var serr error
				if o := call(func() error { ms = tensor.MultIteratorFromDense(ts...); _, serr = ms.Start(); return nil }); o.Class != "ok" || serr != nil {
					return tagKF(core.F("unexpected-refusal", "start", "MultIteratorFromDense(%v).Start: %v %s", tu, serr, o))
				}
				for j := range ts {
					if got := ms.LastIndex(j); got != sims[j].offs[0] {
						return tagKF(core.F("wrong-value", fmt.Sprintf("start-j%d", j), "multi-iterator %v: Start delivers offset %d for tensor %d, its own flat iterator starts at %d", tu, got, j, sims[j].offs[0]))
					}
				}
				return nil
			})
		}
	}
}

// c05MultiMasked: multi-iterators over pairs and triples of equal-shape tensors of which one, several or all carry a
// mask (MultIteratorFromDense combines the masks when more than one operand is masked): the offsets delivered for
// each tensor are still those of its own flat iterator, for exactly Size() positions.
func c05MultiMasked(r *core.Run) {
	shapes := [][]int{{3}, {2, 3}, {2, 2}, {2, 1, 2}}
	if !isQuick(r) {
		shapes = append(shapes, []int{3, 2}, []int{2, 2, 2}, []int{4})
	}
	lays := []string{"U", "C", "T", "Srow"}
	r.SetBound("multi-masked", fmt.Sprintf("shapes %v x every ordered pair and triple of {unmasked contiguous U, masked C, masked lazily transposed T, masked row view Srow} x 2 mask patterns; forward sweep, Reset in the middle, full sweep, exhaustion", shapes))
	for _, shape := range shapes {
		n := ref.Prod(shape)
		var tuples [][]string
		for _, a := range lays {
			for _, b := range lays {
				tuples = append(tuples, []string{a, b})
				for _, c := range lays {
					tuples = append(tuples, []string{a, b, c})
				}
			}
		}
		for _, tu := range tuples {
			for pat := 0; pat < 2; pat++ {
				if !r.Take() {
					continue
				}
				if r.Expired() {
					return
				}
				id := fmt.Sprintf("C05|multi-masked|%s|%s|p%d", shapeStr(shape), strings.Join(tu, ","), pat)
				if r.ReplayCase != "" && id != r.ReplayCase {
					continue
				}
				tu, pat := tu, pat
				r.Case(id, true, func() *core.Fail {
					tensor.VerifResetPools()
					var ts []tensor.DenseTensor
					var sims []*itSim
					nm := 0
					for j, lay := range tu {
						var t *tensor.Dense
						var sim *itSim
						if lay == "U" {
							b, err := atlas.Build(ref.Float64, shape, rampVals(ref.Float64, n), "C")
							if err != nil {
								return nil
							}
							s, ok := simFor(b)
							if !ok {
								return nil
							}
							t, sim = b.T, s
						} else {
							mbits := 0x5 << uint(j)
							if pat == 1 {
								mbits = 0x33 >> uint(j)
							}
							t, sim = c05Masked(shape, lay, mbits)
							if t == nil {
								return nil
							}
							nm++
						}
						ts = append(ts, t)
						sims = append(sims, sim)
					}
					var mi *tensor.MultIterator
					o := call(func() error { mi = tensor.MultIteratorFromDense(ts...); return nil })
					if o.Class != "ok" {
						return core.F("unexpected-refusal", "mk", "MultIteratorFromDense(%v), %d masked: %s", tu, nm, o)
					}
					sweep := func(upto int, tag string) *core.Fail {
						for p := 0; p < upto; p++ {
							var err error
							oc := call(func() error { _, err = mi.Next(); return nil })
							r.Op(1)
							if oc.Class != "ok" || err != nil {
								return core.F("unexpected-refusal", tag, "multi-iterator over %v (%d masked operands) of shape %v: Next failed at position %d of %d: %v %v", tu, nm, shape, p, n, err, oc.Panic)
							}
							for j := range ts {
								if got := mi.LastIndex(j); got != sims[j].offs[p] {
									return core.F("wrong-value", fmt.Sprintf("%s-p%d-j%d", tag, p, j), "multi-iterator over %v (%d masked operands) of shape %v (%s): position %d tensor %d offset %d, its own flat iterator yields %d", tu, nm, shape, tag, p, j, got, sims[j].offs[p])
								}
							}
						}
						return nil
					}
					if f := sweep((n+1)/2, "first-half"); f != nil {
						return f
					}
					mi.Reset()
					if f := sweep(n, "after-reset"); f != nil {
						return f
					}
					var err error
					call(func() error { _, err = mi.Next(); return nil })
					if err == nil {
						return core.F("accepted-invalid", "exh", "multi-iterator %v yields more than %d positions", tu, n)
					}
					return nil
				})
			}
		}
	}
}
