package props

import (
	"fmt"
	"math"
	"reflect"

	"github.com/apache/arrow/go/arrow/array"
	"github.com/apache/arrow/go/arrow/memory"
	arrowTensor "github.com/apache/arrow/go/arrow/tensor"
	"gonum.org/v1/gonum/mat"
	"gorgonia.org/tensor"
	"verifharness/ref"
)

// c17More: further generated specialisations reached through the public API - method forms of arithmetic and
// comparisons, same-type comparisons with the scalar on either side, equality on the identity-coded element types,
// transcendental unary kernels (tolerance: the types need only agree to float32 precision), Apply with plain /
// error-returning functions in place, into a destination and incrementing, generic Reduce along the first, last and a
// middle axis, and the float64 <-> T conversions of FromMat64 / ToMat64.
func c17More() []c17inst {
	var out []c17inst
	num := ref.NUM14
	ordn := ref.ORDN
	b2 := func(f func(x, y float64) bool, a, b []int) []float64 {
		o := make([]float64, len(a))
		for i := range a {
			if f(float64(a[i]), float64(b[i])) {
				o[i] = 1
			}
		}
		return o
	}
	konst := func(k, n int) []int {
		o := make([]int, n)
		for i := range o {
			o[i] = k
		}
		return o
	}
	// ---- method forms
	type mdef struct {
		op string
		b  []int
		f  func(x, y float64) float64
		vv func(a, b *tensor.Dense, o ...tensor.FuncOpt) (*tensor.Dense, error)
		sc func(a *tensor.Dense, s interface{}, left bool, o ...tensor.FuncOpt) (*tensor.Dense, error)
	}
	ipow := func(x, y float64) float64 { return math.Round(math.Pow(x, y)) }
	imod := func(x, y float64) float64 { return float64(int(x) % int(y)) }
	ms := []mdef{
		{"Add", c17B, func(x, y float64) float64 { return x + y }, (*tensor.Dense).Add, (*tensor.Dense).AddScalar},
		{"Sub", c17B, func(x, y float64) float64 { return x - y }, (*tensor.Dense).Sub, (*tensor.Dense).SubScalar},
		{"Mul", c17B, func(x, y float64) float64 { return x * y }, (*tensor.Dense).Mul, (*tensor.Dense).MulScalar},
		{"Div", c17B, func(x, y float64) float64 { return x / y }, (*tensor.Dense).Div, (*tensor.Dense).DivScalar},
		{"Pow", c17P, ipow, (*tensor.Dense).Pow, (*tensor.Dense).PowScalar},
		{"Mod", c17B, imod, (*tensor.Dense).Mod, (*tensor.Dense).ModScalar},
	}
	for _, m := range ms {
		m := m
		dts := num
		if m.op == "Mod" {
			dts = ordn
		}
		two := konst(2, 6)
		twelve := konst(12, 6)
		out = append(out,
			c17inst{family: "method", op: m.op, variant: "VV", run: func(d ref.DT) ([]interface{}, bool, string) {
				return resOfD(m.vv(c17Build(d, c17A, "C"), c17Build(d, m.b, "C")))
			}, generic: func() []float64 { return zipF(c17A, m.b, m.f) }, dts: dts},
			c17inst{family: "method", op: m.op, variant: "VV-iter", run: func(d ref.DT) ([]interface{}, bool, string) {
				return resOfD(m.vv(c17Build(d, c17A, "T"), c17Build(d, m.b, "S")))
			}, generic: func() []float64 { return zipF(c17A, m.b, m.f) }, dts: dts},
			c17inst{family: "method", op: m.op, variant: "VS", run: func(d ref.DT) ([]interface{}, bool, string) {
				return resOfD(m.sc(c17Build(d, c17A, "C"), d.Code(2), true))
			}, generic: func() []float64 { return zipF(c17A, two, m.f) }, dts: dts},
			c17inst{family: "method", op: m.op, variant: "SV", run: func(d ref.DT) ([]interface{}, bool, string) {
				return resOfD(m.sc(c17Build(d, m.b, "C"), d.Code(12), false))
			}, generic: func() []float64 { return zipF(twelve, m.b, m.f) }, dts: dts},
			c17inst{family: "method", op: m.op, variant: "SV-iter-unsafe", run: func(d ref.DT) ([]interface{}, bool, string) {
				return resOfD(m.sc(c17Build(d, m.b, "SS"), d.Code(12), false, tensor.UseUnsafe()))
			}, generic: func() []float64 { return zipF(twelve, m.b, m.f) }, dts: dts})
	}
	type cdef struct {
		op string
		f  func(x, y float64) bool
		vv func(a, b *tensor.Dense, o ...tensor.FuncOpt) (*tensor.Dense, error)
		sc func(a *tensor.Dense, s interface{}, left bool, o ...tensor.FuncOpt) (*tensor.Dense, error)
	}
	cs := []cdef{
		{"Gt", func(x, y float64) bool { return x > y }, (*tensor.Dense).Gt, (*tensor.Dense).GtScalar},
		{"Gte", func(x, y float64) bool { return x >= y }, (*tensor.Dense).Gte, (*tensor.Dense).GteScalar},
		{"Lt", func(x, y float64) bool { return x < y }, (*tensor.Dense).Lt, (*tensor.Dense).LtScalar},
		{"Lte", func(x, y float64) bool { return x <= y }, (*tensor.Dense).Lte, (*tensor.Dense).LteScalar},
		{"ElEq", func(x, y float64) bool { return x == y }, (*tensor.Dense).ElEq, (*tensor.Dense).ElEqScalar},
		{"ElNe", func(x, y float64) bool { return x != y }, (*tensor.Dense).ElNe, (*tensor.Dense).ElNeScalar},
	}
	cb := []int{3, 4, 2, 6, 9, 8}
	c4 := konst(4, 6)
	for _, c := range cs {
		c := c
		dts := append(append([]ref.DT{}, ordn...), ref.String, ref.Uintptr)
		numOnly := ordn
		if c.op == "ElEq" || c.op == "ElNe" {
			dts = append(dts, ref.Complex64, ref.Complex128)
			numOnly = num
		}
		out = append(out,
			c17inst{family: "method-cmp", op: c.op, variant: "VV", run: func(d ref.DT) ([]interface{}, bool, string) {
				return resOfD(c.vv(c17Build(d, c17A, "C"), c17Build(d, cb, "C")))
			}, generic: func() []float64 { return b2(c.f, c17A, cb) }, dts: dts},
			c17inst{family: "method-cmp", op: c.op, variant: "VS", run: func(d ref.DT) ([]interface{}, bool, string) {
				return resOfD(c.sc(c17Build(d, c17A, "C"), d.Code(4), true))
			}, generic: func() []float64 { return b2(c.f, c17A, c4) }, dts: dts},
			c17inst{family: "method-cmp", op: c.op, variant: "SV-iter", run: func(d ref.DT) ([]interface{}, bool, string) {
				return resOfD(c.sc(c17Build(d, c17A, "T"), d.Code(4), false))
			}, generic: func() []float64 { return b2(c.f, c4, c17A) }, dts: dts},
			// same-type results with the scalar on either side, contiguous and through iterators
			c17inst{family: "cmp", op: c.op, variant: "same-SV", run: func(d ref.DT) ([]interface{}, bool, string) {
				return resOf(binFns[c.op](d.Code(4), c17Build(d, c17A, "C"), tensor.AsSameType()))
			}, generic: func() []float64 { return b2(c.f, c4, c17A) }, dts: numOnly},
			c17inst{family: "cmp", op: c.op, variant: "same-VS-iter", run: func(d ref.DT) ([]interface{}, bool, string) {
				return resOf(binFns[c.op](c17Build(d, c17A, "SS"), d.Code(4), tensor.AsSameType()))
			}, generic: func() []float64 { return b2(c.f, c17A, c4) }, dts: numOnly},
			c17inst{family: "cmp", op: c.op, variant: "same-SV-method", run: func(d ref.DT) ([]interface{}, bool, string) {
				return resOfD(c.sc(c17Build(d, c17A, "C"), d.Code(4), false, tensor.AsSameType()))
			}, generic: func() []float64 { return b2(c.f, c4, c17A) }, dts: numOnly})
	}
	// ---- equality over 0/1 codes: every element type including bool and unsafe.Pointer
	z1a := []int{0, 1, 1, 0, 1, 0}
	z1b := []int{0, 1, 0, 1, 1, 0}
	one := konst(1, 6)
	for _, c := range cs[4:] {
		c := c
		for _, v := range []struct {
			name string
			run  func(d ref.DT) (tensor.Tensor, error)
			gen  func() []float64
			same bool
		}{
			{"VV", func(d ref.DT) (tensor.Tensor, error) {
				return binFns[c.op](c17Build(d, z1a, "C"), c17Build(d, z1b, "C"))
			}, func() []float64 { return b2(c.f, z1a, z1b) }, false},
			{"VV-iter", func(d ref.DT) (tensor.Tensor, error) {
				return binFns[c.op](c17Build(d, z1a, "T"), c17Build(d, z1b, "SS"))
			}, func() []float64 { return b2(c.f, z1a, z1b) }, false},
			{"VS", func(d ref.DT) (tensor.Tensor, error) { return binFns[c.op](c17Build(d, z1a, "C"), d.Code(1)) }, func() []float64 { return b2(c.f, z1a, one) }, false},
			{"SV", func(d ref.DT) (tensor.Tensor, error) { return binFns[c.op](d.Code(1), c17Build(d, z1a, "C")) }, func() []float64 { return b2(c.f, one, z1a) }, false},
			{"SV-iter", func(d ref.DT) (tensor.Tensor, error) { return binFns[c.op](d.Code(1), c17Build(d, z1a, "S")) }, func() []float64 { return b2(c.f, one, z1a) }, false},
			{"same", func(d ref.DT) (tensor.Tensor, error) {
				return binFns[c.op](c17Build(d, z1a, "C"), c17Build(d, z1b, "C"), tensor.AsSameType())
			}, func() []float64 { return b2(c.f, z1a, z1b) }, true},
			{"same-iter", func(d ref.DT) (tensor.Tensor, error) {
				return binFns[c.op](c17Build(d, z1a, "T"), c17Build(d, z1b, "S"), tensor.AsSameType())
			}, func() []float64 { return b2(c.f, z1a, z1b) }, true},
			{"same-SV", func(d ref.DT) (tensor.Tensor, error) {
				return binFns[c.op](d.Code(1), c17Build(d, z1a, "C"), tensor.AsSameType())
			}, func() []float64 { return b2(c.f, one, z1a) }, true},
			{"same-VS", func(d ref.DT) (tensor.Tensor, error) {
				return binFns[c.op](c17Build(d, z1a, "C"), d.Code(1), tensor.AsSameType())
			}, func() []float64 { return b2(c.f, z1a, one) }, true},
			{"VS-iter", func(d ref.DT) (tensor.Tensor, error) { return binFns[c.op](c17Build(d, z1a, "T"), d.Code(1)) }, func() []float64 { return b2(c.f, z1a, one) }, false},
			{"same-SV-iter", func(d ref.DT) (tensor.Tensor, error) {
				return binFns[c.op](d.Code(1), c17Build(d, z1a, "S"), tensor.AsSameType())
			}, func() []float64 { return b2(c.f, one, z1a) }, true},
			{"same-VS-iter", func(d ref.DT) (tensor.Tensor, error) {
				return binFns[c.op](c17Build(d, z1a, "SS"), d.Code(1), tensor.AsSameType())
			}, func() []float64 { return b2(c.f, z1a, one) }, true},
		} {
			v := v
			dts := ref.ALL18
			if v.same {
				// a same-type result holds the truth value as the element type's own 1/0 (true/false for bool)
				dts = append(append([]ref.DT{}, num...), ref.Bool, ref.Uintptr)
			}
			out = append(out, c17inst{family: "cmp01", op: c.op, variant: v.name, run: func(d ref.DT) ([]interface{}, bool, string) {
				return resOf(v.run(d))
			}, generic: v.gen, dts: dts})
		}
	}
	// ---- transcendental unary kernels
	fc := []ref.DT{ref.Float32, ref.Float64, ref.Complex64, ref.Complex128}
	ff := []ref.DT{ref.Float32, ref.Float64}
	uin := []int{1, 2, 4, 3, 8, 5}
	for _, u := range []struct {
		op  string
		f   func(x float64) float64
		dts []ref.DT
	}{
		{"Exp", math.Exp, fc}, {"Tanh", math.Tanh, fc}, {"Log", math.Log, fc}, {"Log2", math.Log2, ff}, {"Log10", math.Log10, fc},
		{"Cbrt", math.Cbrt, ff}, {"InvSqrt", func(x float64) float64 { return 1 / math.Sqrt(x) }, ff}, {"Sqrt", math.Sqrt, fc},
	} {
		u := u
		gen := func() []float64 {
			o := make([]float64, len(uin))
			for i, k := range uin {
				o[i] = u.f(float64(k))
			}
			return o
		}
		for _, v := range []struct {
			name, lay string
			unsafe    bool
		}{{"contig", "C", false}, {"iter", "T", false}, {"iter2", "SS", false}, {"unsafe", "C", true}, {"unsafe-iter", "S", true}} {
			v := v
			out = append(out, c17inst{family: "unary-math", op: u.op, variant: v.name, run: func(d ref.DT) ([]interface{}, bool, string) {
				var opts []tensor.FuncOpt
				if v.unsafe {
					opts = append(opts, tensor.UseUnsafe())
				}
				return resOf(unFns[u.op](c17Build(d, uin, v.lay), opts...))
			}, generic: gen, dts: u.dts})
		}
	}
	// ---- Apply: identity on every element type; 2x+1 with error-returning functions, destinations and increments
	idFn := func(d ref.DT, withErr bool) interface{} {
		t := d.D.Type
		outs := []reflect.Type{t}
		if withErr {
			outs = append(outs, reflect.TypeOf((*error)(nil)).Elem())
		}
		return reflect.MakeFunc(reflect.FuncOf([]reflect.Type{t}, outs, false), func(in []reflect.Value) []reflect.Value {
			if withErr {
				return []reflect.Value{in[0], reflect.Zero(outs[1])}
			}
			return []reflect.Value{in[0]}
		}).Interface()
	}
	numFn := func(d ref.DT, withErr bool) interface{} {
		t := d.D.Type
		outs := []reflect.Type{t}
		if withErr {
			outs = append(outs, reflect.TypeOf((*error)(nil)).Elem())
		}
		return reflect.MakeFunc(reflect.FuncOf([]reflect.Type{t}, outs, false), func(in []reflect.Value) []reflect.Value {
			v := reflect.ValueOf(applyModel(d, in[0].Interface()))
			if withErr {
				return []reflect.Value{v, reflect.Zero(outs[1])}
			}
			return []reflect.Value{v}
		}).Interface()
	}
	for _, v := range []struct {
		name, lay string
		err, uns  bool
	}{{"id-contig", "C", false, false}, {"id-iter", "T", false, false}, {"id-err-contig", "C", true, false}, {"id-err-iter", "SS", true, false},
		{"id-unsafe", "C", false, true}, {"id-err-unsafe-iter", "S", true, true}} {
		v := v
		out = append(out, c17inst{family: "map", op: "Apply", variant: v.name, run: func(d ref.DT) ([]interface{}, bool, string) {
			var opts []tensor.FuncOpt
			if v.uns {
				opts = append(opts, tensor.UseUnsafe())
			}
			return resOf(c17Build(d, c17A, v.lay).Apply(idFn(d, v.err), opts...))
		}, generic: func() []float64 { return fl(c17A) }, dts: ref.ALL18})
	}
	twoK1 := func(ks []int) []float64 {
		o := make([]float64, len(ks))
		for i, k := range ks {
			o[i] = float64(2*k + 1)
		}
		return o
	}
	for _, v := range []struct {
		name, lay string
		err       bool
		mode      string
	}{{"err-contig", "C", true, ""}, {"err-iter", "T", true, ""}, {"err-unsafe", "C", true, "unsafe"}, {"err-unsafe-iter", "SS", true, "unsafe"},
		// destination variants: the destination starts with the operand's values, so that "fn(destination)" (the
		// recorded C12 finding) and "fn(operand)" coincide - the subject here is agreement between element types
		{"reuse", "C", false, "reuse"}, {"reuse-err", "C", true, "reuse"}, {"incr", "C", false, "incr"}, {"incr-err", "C", true, "incr"},
		{"incr-iter", "T", false, "incr"}, {"incr-err-iter", "SS", true, "incr"}} {
		v := v
		out = append(out, c17inst{family: "map", op: "Apply", variant: v.name, run: func(d ref.DT) ([]interface{}, bool, string) {
			var opts []tensor.FuncOpt
			switch v.mode {
			case "unsafe":
				opts = append(opts, tensor.UseUnsafe())
			case "reuse":
				opts = append(opts, tensor.WithReuse(c17Build(d, c17A, "C")))
			case "incr":
				opts = append(opts, tensor.WithIncr(c17Build(d, c17A, "C")))
			}
			return resOf(c17Build(d, c17A, v.lay).Apply(numFn(d, v.err), opts...))
		}, generic: func() []float64 {
			o := twoK1(c17A)
			if v.mode == "incr" {
				for i, k := range c17A {
					o[i] += float64(k)
				}
			}
			return o
		}, dts: num})
	}
	// ---- generic Reduce (user function) along the first, the last and a middle axis
	rvals := []int{1, 2, 3, 4, 5, 6, 1, 2, 3, 4, 5, 6}
	rshape := []int{2, 3, 2}
	z12 := []int{0, 1, 1, 0, 1, 0, 1, 1, 0, 0, 1, 0}
	for _, ax := range []int{0, 1, 2} {
		for _, lay := range []string{"C", "T"} {
			ax, lay := ax, lay
			out = append(out, c17inst{family: "reduce-generic", op: "Reduce(add)", variant: lay + "-axis" + string(rune('0'+ax)), run: func(d ref.DT) ([]interface{}, bool, string) {
				vals := c17Vals(d, rvals)
				b := buildVerified(d, rshape, vals, lay)
				if b == nil {
					return nil, true, ""
				}
				t := d.D.Type
				fn := reflect.MakeFunc(reflect.FuncOf([]reflect.Type{t, t}, []reflect.Type{t}, false), func(in []reflect.Value) []reflect.Value {
					return []reflect.Value{reflect.ValueOf(ref.Arith("Add", in[0].Interface(), in[1].Interface()).V)}
				}).Interface()
				return resOfD(b.T.Reduce(fn, ax, d.Code(0)))
			}, generic: func() []float64 {
				a := ref.Arr{DT: ref.Float64, Shape: rshape, El: make([]interface{}, len(rvals))}
				for i, k := range rvals {
					a.El[i] = float64(k)
				}
				res := reduceModel(a, []int{ax}, func(x, y interface{}) interface{} { return x.(float64) + y.(float64) })
				o := make([]float64, len(res.El))
				for i, e := range res.El {
					o[i] = e.(float64)
				}
				return o
			}, dts: num})
		}
	}
	// generic Reduce with a NON-ZERO default value (3). The library folds the default in along the last axis only (the
	// first- and middle-axis folds start from the first element): that axis dependence is the same for every element
	// type, which is all C17 asks, so the type-generic definition here follows it.
	for _, ax := range []int{0, 1, 2} {
		ax := ax
		out = append(out, c17inst{family: "reduce-generic", op: "Reduce(add,default=3)", variant: "C-axis" + string(rune('0'+ax)), run: func(d ref.DT) ([]interface{}, bool, string) {
			vals := c17Vals(d, rvals)
			b := buildVerified(d, rshape, vals, "C")
			if b == nil {
				return nil, true, ""
			}
			t := d.D.Type
			fn := reflect.MakeFunc(reflect.FuncOf([]reflect.Type{t, t}, []reflect.Type{t}, false), func(in []reflect.Value) []reflect.Value {
				return []reflect.Value{reflect.ValueOf(ref.Arith("Add", in[0].Interface(), in[1].Interface()).V)}
			}).Interface()
			return resOfD(b.T.Reduce(fn, ax, d.Code(3)))
		}, generic: func() []float64 {
			a := ref.Arr{DT: ref.Float64, Shape: rshape, El: make([]interface{}, len(rvals))}
			for i, k := range rvals {
				a.El[i] = float64(k)
			}
			res := reduceModel(a, []int{ax}, func(x, y interface{}) interface{} { return x.(float64) + y.(float64) })
			o := make([]float64, len(res.El))
			for i, e := range res.El {
				o[i] = e.(float64)
				if ax == 2 {
					o[i] += 3
				}
			}
			return o
		}, dts: num})
	}
	// generic Reduce with a selecting function (keeps the later element): defined for EVERY element type
	for _, ax := range []int{0, 1, 2} {
		ax := ax
		out = append(out, c17inst{family: "reduce-generic", op: "Reduce(second)", variant: "C-axis" + string(rune('0'+ax)), run: func(d ref.DT) ([]interface{}, bool, string) {
			b := buildVerified(d, rshape, c17Vals(d, z12), "C")
			if b == nil {
				return nil, true, ""
			}
			t := d.D.Type
			fn := reflect.MakeFunc(reflect.FuncOf([]reflect.Type{t, t}, []reflect.Type{t}, false), func(in []reflect.Value) []reflect.Value {
				return []reflect.Value{in[1]}
			}).Interface()
			return resOfD(b.T.Reduce(fn, ax, d.Code(0)))
		}, generic: func() []float64 {
			a := ref.Arr{DT: ref.Float64, Shape: rshape, El: make([]interface{}, len(z12))}
			for i, k := range z12 {
				a.El[i] = float64(k)
			}
			res := reduceModel(a, []int{ax}, func(x, y interface{}) interface{} { return y })
			o := make([]float64, len(res.El))
			for i, e := range res.El {
				o[i] = e.(float64)
			}
			return o
		}, dts: ref.ALL18})
	}
	// ---- arg-reductions on special float values (infinities, NaN after an infinity): no type-generic definition is
	// assumed for NaN - float32 must simply do what float64 does (flat, along an axis, plain and masked kernels)
	spv := [][]float64{{math.Inf(1), 1, math.Inf(1), 2, 0, 3}, {1, math.Inf(1), math.NaN(), 2, 0, 3}, {math.Inf(-1), 1, math.Inf(-1), 2, math.NaN(), 3}, {math.NaN(), 1, 2, math.Inf(1), math.Inf(-1), 0}}
	for vi, vals := range spv {
		for _, am := range []string{"Argmax", "Argmin"} {
			for _, masked := range []bool{false, true} {
				for _, ax := range []int{-1, 1} {
					vi, vals, am, masked, ax := vi, vals, am, masked, ax
					run := func(d ref.DT) ([]interface{}, bool, string) {
						back := d.MakeSlice(6)
						for i, f := range vals {
							ref.SliceSet(back, i, reflect.ValueOf(f).Convert(d.D.Type).Interface())
						}
						var t *tensor.Dense
						if masked {
							t = tensor.New(tensor.WithShape(2, 3), tensor.WithBacking(back, []bool{false, false, false, false, true, false}))
						} else {
							t = tensor.New(tensor.WithShape(2, 3), tensor.WithBacking(back))
						}
						var r *tensor.Dense
						var err error
						if am == "Argmax" {
							r, err = t.Argmax(ax)
						} else {
							r, err = t.Argmin(ax)
						}
						if err != nil || r == nil {
							return nil, true, ""
						}
						return resOf(r, nil)
					}
					out = append(out, c17inst{family: "argreduce-special", op: am, variant: fmt.Sprintf("vals%d-masked=%v-axis=%d", vi, masked, ax), run: run, generic: func() []float64 {
						res, refused, _ := run(ref.Float64)
						if refused {
							return nil
						}
						o := make([]float64, len(res))
						for i, v := range res {
							o[i], _ = ref.ToF64(v)
						}
						return o
					}, dts: []ref.DT{ref.Float32}})
				}
			}
		}
	}
	// ---- Arrow conversions: FromArrowArray (a column) and FromArrowTensor (row- and column-major)
	arrowDTs := []ref.DT{ref.Int8, ref.Int16, ref.Int32, ref.Int64, ref.Uint8, ref.Uint16, ref.Uint32, ref.Uint64, ref.Float32, ref.Float64}
	out = append(out, c17inst{family: "convert", op: "FromArrowArray", variant: "column", run: func(d ref.DT) ([]interface{}, bool, string) {
		arr := arrowArr(d, c17A)
		if arr == nil {
			return nil, true, ""
		}
		defer arr.Release()
		return resOfD(tensor.FromArrowArray(arr), nil)
	}, generic: func() []float64 { return fl(c17A) }, dts: append(append([]ref.DT{}, arrowDTs...), ref.Bool, ref.String)})
	for _, cm := range []bool{false, true} {
		cm := cm
		name := "row-major"
		if cm {
			name = "col-major"
		}
		out = append(out, c17inst{family: "convert", op: "FromArrowTensor", variant: name, run: func(d ref.DT) ([]interface{}, bool, string) {
			// the type-generic definition pinned by the repository's TestFromArrowTensor: the Arrow buffer, read in
			// order, gives the row-major sequence of the logical elements - also for a column-major Arrow tensor (whose
			// strides say otherwise; not judged here, see DESIGN 10.2)
			sz := int64(d.D.Size())
			strides := []int64{3 * sz, sz}
			if cm {
				strides = []int64{sz, 2 * sz}
			}
			arr := arrowArr(d, c17A)
			if arr == nil {
				return nil, true, ""
			}
			defer arr.Release()
			at := arrowTensor.New(arr.Data(), []int64{2, 3}, strides, nil)
			defer at.Release()
			return resOfD(tensor.FromArrowTensor(at), nil)
		}, generic: func() []float64 { return fl(c17A) }, dts: arrowDTs})
	}
	// ---- float64 <-> T conversions (FromMat64 / ToMat64)
	out = append(out,
		c17inst{family: "convert", op: "ToMat64", variant: "contig", run: func(d ref.DT) ([]interface{}, bool, string) {
			m, err := tensor.ToMat64(c17Build(d, c17A, "C"))
			if err != nil {
				return nil, true, ""
			}
			res := make([]interface{}, 0, 6)
			for i := 0; i < 2; i++ {
				for j := 0; j < 3; j++ {
					res = append(res, m.At(i, j))
				}
			}
			return res, false, ""
		}, generic: func() []float64 { return fl(c17A) }, dts: ordn},
		c17inst{family: "convert", op: "ToMat64", variant: "view", run: func(d ref.DT) ([]interface{}, bool, string) {
			m, err := tensor.ToMat64(c17Build(d, c17A, "S"))
			if err != nil {
				return nil, true, ""
			}
			res := make([]interface{}, 0, 6)
			for i := 0; i < 2; i++ {
				for j := 0; j < 3; j++ {
					res = append(res, m.At(i, j))
				}
			}
			return res, false, ""
		}, generic: func() []float64 { return fl(c17A) }, dts: ordn},
		c17inst{family: "convert", op: "FromMat64", variant: "As", run: func(d ref.DT) ([]interface{}, bool, string) {
			m := mat.NewDense(2, 3, fl(c17A))
			return resOfD(tensor.FromMat64(m, tensor.As(d.D)), nil)
		}, generic: func() []float64 { return fl(c17A) }, dts: ordn})
	return out
}

func resOfD(t *tensor.Dense, e error) ([]interface{}, bool, string) {
	if e != nil {
		return nil, true, ""
	}
	return resOf(t, nil)
}

// arrowArr builds an Arrow array of d's Arrow counterpart holding the codes ks (nil when Arrow has no such type).
func arrowArr(d ref.DT, ks []int) array.Interface {
	mem := memory.NewGoAllocator()
	switch d.Name {
	case "bool":
		b := array.NewBooleanBuilder(mem)
		defer b.Release()
		for _, k := range ks {
			b.Append(d.Code(k).(bool))
		}
		return b.NewArray()
	case "string":
		b := array.NewStringBuilder(mem)
		defer b.Release()
		for _, k := range ks {
			b.Append(d.Code(k).(string))
		}
		return b.NewArray()
	case "int8":
		b := array.NewInt8Builder(mem)
		defer b.Release()
		for _, k := range ks {
			b.Append(int8(k))
		}
		return b.NewArray()
	case "int16":
		b := array.NewInt16Builder(mem)
		defer b.Release()
		for _, k := range ks {
			b.Append(int16(k))
		}
		return b.NewArray()
	case "int32":
		b := array.NewInt32Builder(mem)
		defer b.Release()
		for _, k := range ks {
			b.Append(int32(k))
		}
		return b.NewArray()
	case "int64":
		b := array.NewInt64Builder(mem)
		defer b.Release()
		for _, k := range ks {
			b.Append(int64(k))
		}
		return b.NewArray()
	case "uint8":
		b := array.NewUint8Builder(mem)
		defer b.Release()
		for _, k := range ks {
			b.Append(uint8(k))
		}
		return b.NewArray()
	case "uint16":
		b := array.NewUint16Builder(mem)
		defer b.Release()
		for _, k := range ks {
			b.Append(uint16(k))
		}
		return b.NewArray()
	case "uint32":
		b := array.NewUint32Builder(mem)
		defer b.Release()
		for _, k := range ks {
			b.Append(uint32(k))
		}
		return b.NewArray()
	case "uint64":
		b := array.NewUint64Builder(mem)
		defer b.Release()
		for _, k := range ks {
			b.Append(uint64(k))
		}
		return b.NewArray()
	case "float32":
		b := array.NewFloat32Builder(mem)
		defer b.Release()
		for _, k := range ks {
			b.Append(float32(k))
		}
		return b.NewArray()
	case "float64":
		b := array.NewFloat64Builder(mem)
		defer b.Release()
		for _, k := range ks {
			b.Append(float64(k))
		}
		return b.NewArray()
	}
	return nil
}
