package props

import (
	"fmt"
	"strings"

	"gorgonia.org/tensor"
	"verifharness/atlas"
	"verifharness/core"
	"verifharness/ref"
)

func init() {
	register(&Def{ID: "C09", Engine: "E1", Run: runC09,
		Rule: "cross product: {Inner, MatVecMul, MatMul, Outer, TensorMul, Dot, Trace} x float32/float64/complex64/complex128 x all operand shape combinations with dims <= 3 (thorough: <= 4, plus lengths 5, 7, 9, 17 on both sides of the widths the BLAS kernels unroll by) (vector forms (n),(n,1),(1,n); matrices; rank-3 tensors with every valid contraction axis pair and pair list) x layout of each operand (L5 x L5) x {safe, reuse, incr, reuse+incr, lazily transposed and non-contiguous view destinations, a destination that IS one of the operands, a destination that cannot hold the result, the unsafe option next to a reuse tensor} x {two operands, the same tensor as both operands} x vector operands of unequal lengths in every vector form (refusal space) x value sets {integer-valued (exact), fractional (tolerance)}; " +
			"every result element is compared with the textbook sum of products of the model arrays; operands (storage + metadata) and caller-owned axes slices must be unchanged; any refusal (error or panic) is accepted, a wrong value never. non-trivial = every operand has >= 2 elements",
		Assume: []string{"reference sums are accumulated in the operand type in index order; integer-valued inputs make every summation order exact", "gonum BLAS is part of the implementation under test"}})
}

func dotVals(d ref.DT, n int, vs string, seed int) []interface{} {
	v := make([]interface{}, n)
	for i := range v {
		k := (i*5+seed*3)%7 - 2
		if k == 0 {
			k = 3
		}
		switch vs {
		case "int":
			v[i] = d.Code(k)
		case "frac":
			switch d.Name {
			case "float32":
				v[i] = float32(k) + 0.25
			case "float64":
				v[i] = float64(k) + 0.125
			case "complex64":
				v[i] = complex(float32(k)+0.5, float32(seed+1)-0.25)
			case "complex128":
				v[i] = complex(float64(k)+0.5, float64(seed+1)-0.25)
			}
		}
		if vs == "int" && d.Class == ref.CComplex {
			if d.Name == "complex64" {
				v[i] = complex(float32(k), float32((i+seed)%3-1))
			} else {
				v[i] = complex(float64(k), float64((i+seed)%3-1))
			}
		}
	}
	return v
}

func madd(acc, a, b interface{}) interface{} {
	p := ref.Arith("Mul", a, b).V
	if acc == nil {
		return p
	}
	return ref.Arith("Add", acc, p).V
}

// contract computes the general contraction of a and b over the paired axes (textbook definition).
func contract(a, b ref.Arr, axesA, axesB []int) ref.Arr {
	for i := range axesA {
		if axesA[i] >= len(a.Shape) || axesB[i] >= len(b.Shape) || a.Shape[axesA[i]] != b.Shape[axesB[i]] {
			return ref.Arr{DT: a.DT, Shape: []int{-1}} // no defined result
		}
	}
	inA, inB := map[int]bool{}, map[int]bool{}
	for _, x := range axesA {
		inA[x] = true
	}
	for _, x := range axesB {
		inB[x] = true
	}
	var freeA, freeB, oshape, cshape []int
	for i, d := range a.Shape {
		if !inA[i] {
			freeA = append(freeA, i)
			oshape = append(oshape, d)
		}
	}
	for i, d := range b.Shape {
		if !inB[i] {
			freeB = append(freeB, i)
			oshape = append(oshape, d)
		}
	}
	for _, x := range axesA {
		cshape = append(cshape, a.Shape[x])
	}
	if oshape == nil {
		oshape = []int{}
	}
	out := ref.Arr{DT: a.DT, Shape: oshape, El: make([]interface{}, ref.Prod(oshape))}
	ca := make([]int, len(a.Shape))
	cb := make([]int, len(b.Shape))
	k := 0
	ref.ForCoords(oshape, func(oc []int) {
		for i, ax := range freeA {
			ca[ax] = oc[i]
		}
		for i, ax := range freeB {
			cb[ax] = oc[len(freeA)+i]
		}
		var acc interface{}
		ref.ForCoords(cshape, func(cc []int) { // an empty contraction runs once: the plain product
			for i := range cc {
				ca[axesA[i]] = cc[i]
				cb[axesB[i]] = cc[i]
			}
			acc = madd(acc, a.At(ca), b.At(cb))
		})
		if acc == nil {
			acc = a.DT.Zero()
		}
		out.El[k] = acc
		k++
	})
	return out
}

type laCase struct {
	op       string
	d        ref.DT
	sa, sb   []int
	la, lb   string
	mode     string // safe reuse incr reuse+incr
	vs       string
	axA, axB []int
	api      string
}

func (c laCase) id() string {
	ax := ""
	if c.op == "TensorMul" {
		ax = "|axes=" + strings.ReplaceAll(fmt.Sprint(c.axA, c.axB), " ", ",")
	}
	return fmt.Sprintf(propPfx+"C09|%s|%s|%s|%s|a=%s|b=%s|%s|%s|%s%s", c.op, c.d.Name, shapeStr(c.sa), shapeStr(c.sb), c.la, c.lb, c.mode, c.vs, c.api, ax)
}

var laSupport = map[string]bool{}

func laSupported(op string, d ref.DT) bool {
	k := op + "|" + d.Name
	if v, ok := laSupport[k]; ok {
		return v
	}
	c := laCase{op: op, d: d, la: "C", lb: "C", mode: "safe", vs: "int", api: "method"}
	switch op {
	case "Inner":
		c.sa, c.sb = []int{3}, []int{3}
	case "MatVecMul":
		c.sa, c.sb = []int{2, 3}, []int{3}
	case "MatMul", "Dot":
		c.sa, c.sb = []int{2, 3}, []int{3, 2}
	case "Outer":
		c.sa, c.sb = []int{2}, []int{3}
	case "TensorMul":
		c.sa, c.sb, c.axA, c.axB = []int{2, 3}, []int{3, 2}, []int{1}, []int{0}
	case "Trace":
		c.sa = []int{3, 3}
	}
	laSupport[k] = true // avoid recursion
	_, cls := laExec(nil, c)
	laSupport[k] = cls == "ok"
	return laSupport[k]
}

// laExec runs one linear-algebra case.
func laExec(r *core.Run, c laCase) (*core.Fail, string) {
	d := c.d
	av := dotVals(d, ref.Prod(c.sa), c.vs, 1)
	A := buildVerified(d, c.sa, av, c.la)
	if A == nil {
		return nil, "skip:" + c.la
	}
	arrA := ref.Arr{DT: d, Shape: c.sa, El: av}
	var B *atlas.Built
	var arrB ref.Arr
	if c.op != "Trace" {
		bv := dotVals(d, ref.Prod(c.sb), c.vs, 2)
		if c.lb == "=a" {
			// the SAME tensor as both operands
			if !ref.EqInts(c.sa, c.sb) {
				return nil, "skip:=a"
			}
			B, bv = A, av
		} else {
			B = buildVerified(d, c.sb, bv, c.lb)
		}
		if B == nil {
			return nil, "skip:" + c.lb
		}
		arrB = ref.Arr{DT: d, Shape: c.sb, El: bv}
	}
	if r != nil {
		r.State(d.Name + "|" + atlas.StateKey(A.T, atlas.RootPtr(A.Root)))
		if B != nil {
			r.State(d.Name + "|" + atlas.StateKey(B.T, atlas.RootPtr(B.Root)))
		}
	}
	// model
	var want ref.Arr
	invalid := false
	vecLen := func(s []int) int { return ref.Prod(s) }
	asVec := func(a ref.Arr) ref.Arr { return ref.Arr{DT: a.DT, Shape: []int{len(a.El)}, El: a.El} }
	switch c.op {
	case "Inner":
		if len(arrA.El) != len(arrB.El) {
			want = ref.Arr{}
			invalid = true // vectors of unequal length have no inner product: only a refusal is acceptable
			break
		}
		want = contract(asVec(arrA), asVec(arrB), []int{0}, []int{0})
	case "MatVecMul":
		want = contract(arrA, asVec(arrB), []int{1}, []int{0})
	case "MatMul":
		want = contract(arrA, arrB, []int{1}, []int{0})
	case "Outer":
		want = contract(asVec(arrA), asVec(arrB), nil, nil)
	case "TensorMul":
		want = contract(arrA, arrB, c.axA, c.axB)
	case "Trace":
		var acc interface{}
		for i := 0; i < c.sa[0] && i < c.sa[1]; i++ {
			v := arrA.At([]int{i, i})
			if acc == nil {
				acc = v
			} else {
				acc = ref.Arith("Add", acc, v).V
			}
		}
		want = ref.Arr{DT: d, Shape: []int{}, El: []interface{}{acc}}
	case "Dot":
		sa, sb := tensor.Shape(c.sa), tensor.Shape(c.sb)
		switch {
		case sa.IsVector() && sb.IsVector():
			if len(arrA.El) != len(arrB.El) {
				// documented dispatch: two vector-shaped operands are an inner product; unequal lengths have no result
				// (NumPy would multiply (m,1)x(1,n) as matrices - the library documents the vector rule, so only a
				// refusal is acceptable here)
				want = ref.Arr{}
				invalid = true
				break
			}
			want = contract(asVec(arrA), asVec(arrB), []int{0}, []int{0})
		case sa.IsVector() && len(sb) == 2:
			want = contract(asVec(arrA), arrB, []int{0}, []int{0})
		case len(sa) == 2 && sb.IsVector():
			want = contract(arrA, asVec(arrB), []int{1}, []int{0})
		case len(sa) == 2 && len(sb) == 2:
			want = contract(arrA, arrB, []int{1}, []int{0})
		default:
			bax := 0
			if len(sb) >= 2 {
				bax = len(sb) - 2
			}
			want = contract(arrA, arrB, []int{len(sa) - 1}, []int{bax})
		}
	}
	_ = vecLen
	if len(want.Shape) == 1 && want.Shape[0] == -1 {
		invalid = true
		want = ref.Arr{}
	}
	// destination
	var opts []tensor.FuncOpt
	var dst *tensor.Dense
	var dstOld []interface{}
	var dstBuilt *atlas.Built
	var dstSnap atlas.Snap
	aliased := "" // "a" / "b": the destination is that operand
	misfit := false
	nOut := len(want.El)
	if invalid && c.mode != "safe" {
		return nil, "skip:no-defined-result"
	}
	if c.mode != "safe" {
		dstOld = make([]interface{}, nOut)
		for i := range dstOld {
			dstOld[i] = d.Code(i%4 + 1)
		}
		dst = mkContig(d, want.Shape, dstOld)
		if strings.HasSuffix(c.mode, "=a") || strings.HasSuffix(c.mode, "=b") {
			// the destination IS one of the operands: refused, or computed from the operands as they were
			src, el := A, arrA.El
			if strings.HasSuffix(c.mode, "=b") {
				src, el = B, arrB.El
			}
			if src == nil || !ref.EqInts([]int(src.T.Shape()), want.Shape) {
				return nil, "skip:shape"
			}
			dst = src.T
			copy(dstOld, el)
			aliased = c.mode[len(c.mode)-1:]
		}
		if strings.HasSuffix(c.mode, ":misfit") {
			// a destination with one row more than the result has: there is no way to put the result into it
			if len(want.Shape) == 0 {
				return nil, "skip:scalar-result"
			}
			ms := ref.CopyInts(want.Shape)
			ms[0]++
			mv := make([]interface{}, ref.Prod(ms))
			for i := range mv {
				mv[i] = d.Code(i%4 + 1)
			}
			dst = mkContig(d, ms, mv)
			misfit = true
		}
		if strings.HasSuffix(c.mode, ":T") {
			// a lazily transposed destination
			db, err := atlas.Build(d, want.Shape, dstOld, "T")
			if err != nil {
				return nil, "skip:dest"
			}
			dst = db.T
		}
		if strings.HasSuffix(c.mode, ":S") {
			// a destination that is a non-contiguous view: written correctly or refused - and whatever happens, the
			// parent's elements between the view's stay what they were
			db, err := atlas.Build(d, want.Shape, dstOld, "S")
			if err != nil {
				return nil, "skip:dest"
			}
			dst = db.T
			dstBuilt = db
			dstSnap = db.Snapshot()
		}
		switch c.mode {
		case "reuse", "reuse:T", "reuse:S", "reuse=a", "reuse=b", "reuse:misfit":
			opts = append(opts, tensor.WithReuse(dst))
		case "unsafe+reuse", "unsafe+reuse:S", "unsafe+reuse:misfit":
			// the unsafe option has nothing to overwrite in a product: the destination is the reuse tensor, judged as such
			opts = append(opts, tensor.UseUnsafe(), tensor.WithReuse(dst))
		case "incr", "incr:T", "incr:S", "incr=a", "incr=b":
			opts = append(opts, tensor.WithIncr(dst))
		case "reuse+incr":
			r2 := mkContig(d, want.Shape, dstOld)
			opts = append(opts, tensor.WithReuse(r2), tensor.WithIncr(dst))
		}
	}
	snapA := A.Snapshot()
	var snapB atlas.Snap
	if B != nil {
		snapB = B.Snapshot()
	}
	axA := append(make([]int, 0, len(c.axA)+3), c.axA...)
	axB := append(make([]int, 0, len(c.axB)+3), c.axB...)
	axAfull, axBfull := axA[:cap(axA)], axB[:cap(axB)]
	keepA, keepB := ref.CopyInts(axAfull), ref.CopyInts(axBfull)
	var res *tensor.Dense
	var scalarRes interface{}
	o := call(func() (e error) {
		switch c.op {
		case "Inner":
			if c.api == "func" {
				scalarRes, e = tensor.Inner(A.T, B.T)
			} else {
				scalarRes, e = A.T.Inner(B.T)
			}
		case "Trace":
			scalarRes, e = A.T.Trace()
		case "MatVecMul":
			if c.api == "func" {
				var t tensor.Tensor
				t, e = tensor.MatVecMul(A.T, B.T, opts...)
				if t != nil {
					res, _ = t.(*tensor.Dense)
				}
			} else {
				res, e = A.T.MatVecMul(B.T, opts...)
			}
		case "MatMul":
			if c.api == "func" {
				var t tensor.Tensor
				t, e = tensor.MatMul(A.T, B.T, opts...)
				if t != nil {
					res, _ = t.(*tensor.Dense)
				}
			} else {
				res, e = A.T.MatMul(B.T, opts...)
			}
		case "Outer":
			if c.api == "func" {
				var t tensor.Tensor
				t, e = tensor.Outer(A.T, B.T, opts...)
				if t != nil {
					res, _ = t.(*tensor.Dense)
				}
			} else {
				res, e = A.T.Outer(B.T, opts...)
			}
		case "TensorMul":
			if c.api == "func" {
				var t tensor.Tensor
				t, e = tensor.Contract(A.T, B.T, axA, axB)
				if t != nil {
					res, _ = t.(*tensor.Dense)
				}
			} else {
				res, e = A.T.TensorMul(B.T, axA, axB)
			}
		case "Dot":
			var t tensor.Tensor
			t, e = tensor.Dot(A.T, B.T, opts...)
			if t != nil {
				res, _ = t.(*tensor.Dense)
			}
		}
		return
	})
	if r != nil {
		r.Op(1)
	}
	what := fmt.Sprintf("%s of %v (%s) and %v (%s) mode %s", c.op, c.sa, c.la, c.sb, c.lb, c.mode)
	// (an operand that is also the destination: written when the call succeeds; when it is refused its ELEMENTS are what
	// they were - the bookkeeping of a destination (view flag, pending transpose) is normalised before the engine is asked)
	aliasA := aliased == "a" || (aliased != "" && c.lb == "=a")
	aliasB := aliased == "b" || (aliased != "" && c.lb == "=a")
	if aliasA && o.Class != "ok" {
		if cells := A.ChangedCells(snapA); len(cells) > 0 {
			return core.F("operand-changed", "a", "%s was refused (%s) but changed elements %v of operand a, which was also the destination", what, o.Class, clip(cells)), o.Class
		}
	} else if ch := A.Changed(snapA); ch != "" && !aliasA {
		return core.F("operand-changed", "a", "%s changed operand a: %s (outcome %s)", what, ch, o.Class), o.Class
	}
	if B != nil {
		if aliasB && o.Class != "ok" {
			if cells := B.ChangedCells(snapB); len(cells) > 0 {
				return core.F("operand-changed", "b", "%s was refused (%s) but changed elements %v of operand b, which was also the destination", what, o.Class, clip(cells)), o.Class
			}
		} else if ch := B.Changed(snapB); ch != "" && !aliasB {
			return core.F("operand-changed", "b", "%s changed operand b: %s (outcome %s)", what, ch, o.Class), o.Class
		}
	}
	if dstBuilt != nil {
		// frame: root cells of the destination's parent outside the view's image
		img := map[int]bool{}
		for _, c := range dstBuilt.View.Cell {
			img[c] = true
		}
		for _, cell := range dstBuilt.ChangedCells(dstSnap) {
			if !img[cell] {
				return core.F("frame-violated", "dest", "%s: element %d of the destination view's parent lies outside the view and changed (outcome %s)", what, cell, o.Class), o.Class
			}
		}
	}
	if !ref.EqInts(axAfull, keepA) || !ref.EqInts(axBfull, keepB) {
		return core.F("caller-slice-mutated", "ax", "%s changed the caller's axes slices: %v %v -> %v %v", what, keepA, keepB, axAfull, axBfull), o.Class
	}
	if o.Class != "ok" {
		return nil, o.Class
	}
	if invalid {
		return core.F("accepted-invalid", "inv", "%s has no defined result (vector operands of unequal length) but was computed", what), o.Class
	}
	if misfit {
		return core.F("accepted-invalid", "misfit", "%s: the destination of shape %v cannot hold a result of shape %v but the call succeeded (returned shape %v)", what, dst.Shape(), want.Shape, func() interface{} {
			if res != nil {
				return res.Shape()
			}
			return nil
		}()), o.Class
	}
	approx := c.vs == "frac" || d.Class == ref.CComplex
	if c.op == "Inner" || c.op == "Trace" {
		if scalarRes == nil {
			return core.F("wrong-type", "nil", "%s returned nil", what), o.Class
		}
		if !ref.Same(scalarRes, want.El[0]) && !(approx && ref.Close(scalarRes, want.El[0])) {
			return core.F("wrong-value", "s", "%s = %s, expected %s", what, ref.Fmt(scalarRes), ref.Fmt(want.El[0])), o.Class
		}
		return nil, o.Class
	}
	if res == nil {
		return core.F("wrong-type", "nil", "%s returned a nil tensor", what), o.Class
	}
	if c.mode != "safe" && c.mode != "reuse+incr" && res != dst {
		return core.F("retval-identity", "id", "%s must return the destination tensor", what), o.Class
	}
	if strings.HasPrefix(c.mode, "incr") || c.mode == "reuse+incr" {
		for i := range want.El {
			want.El[i] = ref.Arith("Add", dstOld[i], want.El[i]).V
		}
	}
	if c.mode == "safe" && (overlaps(res, A.Root) || (B != nil && overlaps(res, B.Root))) {
		return core.F("alias-unexpected", "al", "%s: result shares storage with an operand", what), o.Class
	}
	if f := cmpArr(res, want, what, approx); f != nil {
		return f, o.Class
	}
	if dst != nil && res == dst && (strings.HasPrefix(c.mode, "reuse") || strings.HasPrefix(c.mode, "unsafe+reuse")) && c.mode != "reuse+incr" && aliased == "" {
		// the destination now holds a plain result: nothing of its earlier state (a pending lazy transpose) is left that
		// a later UT - or a later product that looks at that bookkeeping - would act on
		call(func() error { res.UT(); return nil })
		if f := cmpArr(res, want, what+", after a following UT on the destination", approx); f != nil {
			return f, o.Class
		}
	}
	return nil, o.Class
}

func laRun(r *core.Run, c laCase) {
	id := c.id()
	if r.ReplayCase != "" && id != r.ReplayCase {
		return
	}
	r.Case(id, ref.Prod(c.sa) >= 2 && (c.op == "Trace" || ref.Prod(c.sb) >= 2), func() *core.Fail {
		tensor.VerifResetPools()
		sup := laSupported(c.op, c.d)
		tensor.VerifResetPools()
		f, cls := laExec(r, c)
		r.Outcome(c.op + ":" + cls)
		if f == nil && !sup && cls == "ok" {
			return core.F("accepted-invalid", "unsupported", "%s is refused for %s on plain operands but computed here", c.op, c.d.Name)
		}
		if f != nil {
			f.Kind += c09Tag(c, f.Kind)
		}
		return f
	})
}

// c09Tag recognises the preconditions of the recorded C09 findings.
func c09Tag(c laCase, kind string) string {
	// precondition of F-C09-dot-inner-ignores-destination: Dot dispatches two vector-shaped operands to the inner
	// product, whose scalar result is always returned as a fresh tensor
	if c.op == "Dot" && kind == "retval-identity" && c.mode != "safe" && tensor.Shape(c.sa).IsVector() && tensor.Shape(c.sb).IsVector() {
		return "[KF:dot-inner-ignores-destination]"
	}
	return ""
}

func runC09(r *core.Run) {
	quick := isQuick(r)
	maxd := 3
	if !quick {
		maxd = 4
	}
	dts := ref.FC4
	modes := []string{"safe", "reuse", "incr", "reuse+incr", "reuse:T", "incr:T", "reuse:S", "incr:S", "reuse=a", "reuse=b", "incr=a", "incr=b", "unsafe+reuse", "unsafe+reuse:S", "reuse:misfit", "unsafe+reuse:misfit"}
	lays := atlas.L5 // incl. Cl, the CLONE of a sliced view: strided storage that is not a view
	vss := []string{"int", "frac"}
	r.SetBound("dims", fmt.Sprintf("every dimension in 1..%d; rank-3 tensors for TensorMul/Dot", maxd))
	c09Perms(r)
	vecForms := func(n int) [][]int { return [][]int{{n}, {n, 1}, {1, n}} }
	// thorough: lengths on both sides of the widths the BLAS kernels unroll by (4, 8, 16)
	if !quick {
		for _, d := range dts {
			for _, la := range lays {
				for _, lb := range lays {
					if !r.Take() {
						continue
					}
					for _, n := range []int{5, 7, 9, 17} {
						for _, api := range []string{"method", "func"} {
							laRun(r, laCase{op: "Inner", d: d, sa: []int{n}, sb: []int{n}, la: la, lb: lb, mode: "safe", vs: "int", api: api})
						}
						for _, mode := range []string{"safe", "reuse", "incr", "reuse:S"} {
							laRun(r, laCase{op: "MatVecMul", d: d, sa: []int{3, n}, sb: []int{n}, la: la, lb: lb, mode: mode, vs: "int", api: "method"})
							laRun(r, laCase{op: "MatVecMul", d: d, sa: []int{n, 3}, sb: []int{3}, la: la, lb: lb, mode: mode, vs: "int", api: "method"})
							laRun(r, laCase{op: "MatMul", d: d, sa: []int{2, n}, sb: []int{n, 2}, la: la, lb: lb, mode: mode, vs: "int", api: "method"})
							laRun(r, laCase{op: "MatMul", d: d, sa: []int{n, 2}, sb: []int{2, n}, la: la, lb: lb, mode: mode, vs: "frac", api: "method"})
							laRun(r, laCase{op: "Outer", d: d, sa: []int{n}, sb: []int{3}, la: la, lb: lb, mode: mode, vs: "int", api: "method"})
							laRun(r, laCase{op: "Dot", d: d, sa: []int{n, 2}, sb: []int{2, n}, la: la, lb: lb, mode: mode, vs: "int", api: "func"})
						}
					}
				}
			}
		}
	}
	// the same tensor as BOTH operands (x.x, x (x) x, A.A, A contracted with itself), in every layout and mode
	for _, d := range dts {
		for _, la := range lays {
			if !r.Take() {
				continue
			}
			for _, vs := range vss {
				for m := 1; m <= maxd; m++ {
					for _, fa := range vecForms(m) {
						for _, api := range []string{"method", "func"} {
							laRun(r, laCase{op: "Inner", d: d, sa: fa, sb: fa, la: la, lb: "=a", mode: "safe", vs: vs, api: api})
						}
						for _, mode := range modes {
							laRun(r, laCase{op: "Outer", d: d, sa: fa, sb: fa, la: la, lb: "=a", mode: mode, vs: vs, api: "method"})
							if mode != "reuse+incr" {
								laRun(r, laCase{op: "Dot", d: d, sa: fa, sb: fa, la: la, lb: "=a", mode: mode, vs: vs, api: "func"})
							}
						}
					}
					for _, mode := range modes {
						laRun(r, laCase{op: "MatMul", d: d, sa: []int{m, m}, sb: []int{m, m}, la: la, lb: "=a", mode: mode, vs: vs, api: "method"})
						laRun(r, laCase{op: "MatMul", d: d, sa: []int{m, m}, sb: []int{m, m}, la: la, lb: "=a", mode: mode, vs: vs, api: "func"})
						if mode != "reuse+incr" {
							laRun(r, laCase{op: "Dot", d: d, sa: []int{m, m}, sb: []int{m, m}, la: la, lb: "=a", mode: mode, vs: vs, api: "func"})
						}
					}
				}
				for _, sa := range [][]int{{2, 2}, {3, 3}, {2, 2, 2}, {2, 3, 2}} {
					for i := range sa {
						for j := range sa {
							if sa[i] != sa[j] {
								continue
							}
							for _, api := range []string{"method", "func"} {
								laRun(r, laCase{op: "TensorMul", d: d, sa: sa, sb: sa, la: la, lb: "=a", mode: "safe", vs: vs, api: api, axA: []int{i}, axB: []int{j}})
							}
						}
					}
				}
			}
		}
	}
	for _, d := range dts {
		for _, la := range lays {
			for _, lb := range lays {
				if !r.Take() {
					continue
				}
				if r.Expired() {
					return
				}
				for _, vs := range vss {
					if quick && vs == "frac" && la != lb && la != "C" && lb != "C" {
						continue
					}
					for m := 1; m <= maxd; m++ {
						// Inner / Outer: vector forms
						for _, fa := range vecForms(m) {
							for _, fb := range vecForms(m) {
								for _, api := range []string{"method", "func"} {
									laRun(r, laCase{op: "Inner", d: d, sa: fa, sb: fb, la: la, lb: lb, mode: "safe", vs: vs, api: api})
								}
								laRun(r, laCase{op: "Dot", d: d, sa: fa, sb: fb, la: la, lb: lb, mode: "safe", vs: vs, api: "func"})
							}
							// unequal lengths (among them the length of the other operand's storage WINDOW): must be refused
							if vs == "int" {
								for _, m2 := range []int{m + 1, 2 * m, m + 2} {
									if m2 == m {
										continue
									}
									for _, fb := range vecForms(m2) {
										for _, api := range []string{"method", "func"} {
											laRun(r, laCase{op: "Inner", d: d, sa: fa, sb: fb, la: la, lb: lb, mode: "safe", vs: vs, api: api})
											laRun(r, laCase{op: "Inner", d: d, sa: fb, sb: fa, la: la, lb: lb, mode: "safe", vs: vs, api: api})
										}
										laRun(r, laCase{op: "Dot", d: d, sa: fa, sb: fb, la: la, lb: lb, mode: "safe", vs: vs, api: "func"})
										laRun(r, laCase{op: "Dot", d: d, sa: fb, sb: fa, la: la, lb: lb, mode: "safe", vs: vs, api: "func"})
									}
								}
							}
							for n := 1; n <= maxd; n++ {
								for _, fb := range vecForms(n) {
									for _, mode := range modes {
										laRun(r, laCase{op: "Outer", d: d, sa: fa, sb: fb, la: la, lb: lb, mode: mode, vs: vs, api: "method"})
										if mode != "safe" && la == "C" && lb == "C" {
											laRun(r, laCase{op: "Outer", d: d, sa: fa, sb: fb, la: la, lb: lb, mode: mode, vs: vs, api: "func"})
										}
									}
									laRun(r, laCase{op: "Outer", d: d, sa: fa, sb: fb, la: la, lb: lb, mode: "safe", vs: vs, api: "func"})
								}
							}
						}
						for k := 1; k <= maxd; k++ {
							// MatVecMul: (m,k) x vector forms of k
							for _, fb := range vecForms(k) {
								for _, mode := range modes {
									laRun(r, laCase{op: "MatVecMul", d: d, sa: []int{m, k}, sb: fb, la: la, lb: lb, mode: mode, vs: vs, api: "method"})
									if mode != "safe" && (la == "C" || lb == "C") {
										// the package-level entry point must honour the same options
										laRun(r, laCase{op: "MatVecMul", d: d, sa: []int{m, k}, sb: fb, la: la, lb: lb, mode: mode, vs: vs, api: "func"})
									}
									if mode != "reuse+incr" {
										laRun(r, laCase{op: "Dot", d: d, sa: []int{m, k}, sb: fb, la: la, lb: lb, mode: mode, vs: vs, api: "func"})
										laRun(r, laCase{op: "Dot", d: d, sa: fb, sb: []int{k, m}, la: lb, lb: la, mode: mode, vs: vs, api: "func"})
									}
								}
								laRun(r, laCase{op: "MatVecMul", d: d, sa: []int{m, k}, sb: fb, la: la, lb: lb, mode: "safe", vs: vs, api: "func"})
							}
							for n := 1; n <= maxd; n++ {
								for _, mode := range modes {
									laRun(r, laCase{op: "MatMul", d: d, sa: []int{m, k}, sb: []int{k, n}, la: la, lb: lb, mode: mode, vs: vs, api: "method"})
									if mode != "safe" && (la == "C" || lb == "C") {
										laRun(r, laCase{op: "MatMul", d: d, sa: []int{m, k}, sb: []int{k, n}, la: la, lb: lb, mode: mode, vs: vs, api: "func"})
									}
									if mode != "reuse+incr" {
										laRun(r, laCase{op: "Dot", d: d, sa: []int{m, k}, sb: []int{k, n}, la: la, lb: lb, mode: mode, vs: vs, api: "func"})
									}
								}
								laRun(r, laCase{op: "MatMul", d: d, sa: []int{m, k}, sb: []int{k, n}, la: la, lb: lb, mode: "safe", vs: vs, api: "func"})
							}
							if la == lb {
								laRun(r, laCase{op: "Trace", d: d, sa: []int{m, k}, la: la, lb: la, mode: "safe", vs: vs, api: "method"})
							}
						}
					}
					// TensorMul: every pair of shapes of rank 2-3 (dims <= 3, reduced set) and every valid axis pair / pair list
					tshapes := [][]int{{2, 3}, {3, 2}, {2, 2}, {2, 3, 2}, {3, 2, 2}, {2, 2, 3}, {1, 3, 2}, {3}, {2}}
					if !quick {
						tshapes = append(tshapes, []int{3, 3, 3}, []int{2, 3, 4}, []int{2, 2, 2, 2}, []int{2, 1, 3, 2})
					}
					for _, sa := range tshapes {
						for _, sb := range tshapes {
							if quick && vs == "frac" {
								continue
							}
							for i := range sa {
								for j := range sb {
									if sa[i] != sb[j] {
										continue
									}
									for _, api := range []string{"method", "func"} {
										laRun(r, laCase{op: "TensorMul", d: d, sa: sa, sb: sb, la: la, lb: lb, mode: "safe", vs: vs, api: api, axA: []int{i}, axB: []int{j}})
									}
									// pair lists of length 2
									for i2 := range sa {
										for j2 := range sb {
											if i2 == i || j2 == j || sa[i2] != sb[j2] {
												continue
											}
											laRun(r, laCase{op: "TensorMul", d: d, sa: sa, sb: sb, la: la, lb: lb, mode: "safe", vs: vs, api: "method", axA: []int{i, i2}, axB: []int{j, j2}})
										}
									}
								}
							}
							if len(sa) >= 3 || len(sb) >= 3 {
								bax := 0
								if len(sb) >= 2 {
									bax = len(sb) - 2
								}
								if sa[len(sa)-1] == sb[bax] {
									for _, mode := range []string{"safe", "reuse", "incr", "reuse:S", "incr:S", "reuse:T", "reuse:misfit", "unsafe+reuse", "unsafe+reuse:misfit"} {
										laRun(r, laCase{op: "Dot", d: d, sa: sa, sb: sb, la: la, lb: lb, mode: mode, vs: vs, api: "func"})
									}
								}
							}
						}
					}
				}
			}
		}
	}
}

// c09Perms: contraction of rank-3 operands that are lazily transposed by EVERY permutation of their axes (the layout
// "T" of the common atlas is the reversal only): TensorMul clones its operands and transposes the clones once more, so
// the pending permutation and the internal one meet in Dense.T.
func c09Perms(r *core.Run) {
	d := ref.Float64
	r.SetBound("permuted_operands", "TensorMul of rank-3 operands (2,2,2),(2,3,2),(3,3,3)x each lazily transposed by each of the 6 axis permutations x every pair of contraction axes of equal length")
	for _, rs := range [][]int{{2, 2, 2}, {2, 3, 2}, {3, 3, 3}} {
		for _, pa := range ref.Perms(3) {
			for _, pb := range ref.Perms(3) {
				if !r.Take() {
					continue
				}
				if r.Expired() {
					return
				}
				rs, pa, pb := rs, pa, pb
				id := fmt.Sprintf("C09|TensorMulPerm|%s|a=T%v|b=T%v", shapeStr(rs), pa, pb)
				if r.ReplayCase != "" && id != r.ReplayCase {
					continue
				}
				r.Case(id, true, func() *core.Fail {
					mk := func(perm []int, off int) (*atlas.Built, ref.Arr) {
						tensor.VerifResetPools()
						b, cls := atlas.Replay(d, rs, false, []atlas.Step{{Op: "T", Perm: perm}})
						if b == nil || cls != "ok" {
							return nil, ref.Arr{}
						}
						d.FillCodes(b.Root, off)
						arr := ref.Arr{DT: d, Shape: ref.CopyInts(b.View.Shape), El: make([]interface{}, len(b.View.Cell))}
						for i, c := range b.View.Cell {
							arr.El[i] = ref.SliceGet(b.Root, c)
						}
						return b, arr
					}
					var fails []string
					for i := 0; i < 3; i++ {
						for j := 0; j < 3; j++ {
							A, arrA := mk(pa, 1)
							B, arrB := mk(pb, 3)
							if A == nil || B == nil {
								return nil // identity permutation: a no-op transpose, nothing pending
							}
							if arrA.Shape[i] != arrB.Shape[j] {
								continue
							}
							want := contract(arrA, arrB, []int{i}, []int{j})
							snapA, snapB := A.Snapshot(), B.Snapshot()
							var res *tensor.Dense
							var err error
							o := call(func() error { res, err = A.T.TensorMul(B.T, []int{i}, []int{j}); return nil })
							r.Op(1)
							what := fmt.Sprintf("TensorMul of %v.T%v and %v.T%v over axes %d,%d", rs, pa, rs, pb, i, j)
							if o.Class != "ok" || err != nil {
								continue // a loud refusal is allowed
							}
							if ch := A.Changed(snapA); ch != "" {
								fails = append(fails, what+": operand a changed: "+ch)
							}
							if ch := B.Changed(snapB); ch != "" {
								fails = append(fails, what+": operand b changed: "+ch)
							}
							if f := cmpArr(res, want, what, false); f != nil {
								fails = append(fails, f.Detail)
							}
						}
					}
					if len(fails) > 0 {
						return core.F("wrong-value", fmt.Sprintf("%x", core.H64(strings.Join(fails, ";"))), "%s", strings.Join(fails[:1], " ; "))
					}
					return nil
				})
			}
		}
	}
}
