package props

import (
	"fmt"
	"runtime"
	"strings"

	"gorgonia.org/tensor"
	"verifharness/atlas"
	"verifharness/core"
	"verifharness/ref"
)

func init() {
	register(&Def{ID: "C01", Engine: "E1+E2", Run: runC01,
		Rule: "enumeration: element type x shape x construction/view state x {At,SetAt}; one case = the complete coordinate box [-2,dim+1]^rank plus every wrong arity for that tensor state; " +
			"non-trivial = the tensor has >=1 element and the sweep executed >=1 in-range and >=1 out-of-range call; distinct by case id; states = distinct canonical tensor states (width, shape, strides, order, old AP, window offset). Two operation sequences besides: storage the library allocates itself is written, the collector forced three times and every element read back; the same option values are applied to three tensors, two before and one after the first is overwritten (tensors own the storage the library gives them)",
		Assume: []string{"Go runtime/reflect; the root backing slice handed to WithBacking is owned by the harness and read directly (Data() is not trusted)",
			"view states are those of the C02/C03 view graph up to the stated depth; that the view denotes the right cells is decided by C02/C03, C01 decides that At/SetAt address exactly those cells"}})
}

type c01state struct {
	id   string
	mk   func() (*atlas.Built, string)
	conv bool // converting column-major constructor: additionally check the row-major meaning of the given sequence
}

func markerFor(d ref.DT, cur interface{}, k int) interface{} {
	for j := 1; j < 8; j++ {
		m := d.Code(k + 7919*j + 1)
		if !ref.Same(m, cur) {
			return m
		}
	}
	panic("no marker")
}

// sweepBox runs At or SetAt over the complete box and every wrong arity; returns the failure (nil if none) and
// the number of library calls made.
func sweepBox(b *atlas.Built, op string, conv bool) (*core.Fail, int, int, int) {
	t := b.T
	shape := b.View.Shape
	d := b.DT
	rk := len(shape)
	var fails []string
	kinds := map[string]bool{}
	addFail := func(kind string, c []int, format string, a ...interface{}) {
		kinds[kind] = true
		if len(fails) < 40 {
			fails = append(fails, fmt.Sprintf("%s@%v:%s", kind, c, fmt.Sprintf(format, a...)))
		} else if len(fails) == 40 {
			fails = append(fails, "…")
		}
	}
	calls, inr, oob := 0, 0, 0
	snap := b.Snapshot()
	// box
	lo := make([]int, rk)
	box := make([]int, rk)
	for i := range shape {
		lo[i] = -2
		box[i] = shape[i] + 4
	}
	c := make([]int, rk)
	ref.ForCoords(box, func(bc []int) {
		in := true
		for i := range bc {
			c[i] = bc[i] + lo[i]
			if c[i] < 0 || c[i] >= shape[i] {
				in = false
			}
		}
		cc := ref.CopyInts(c)
		if in {
			inr++
			cell := b.View.At(c)
			old := ref.SliceGet(b.Root, cell)
			if op == "At" {
				var v1, v2 interface{}
				o := call(func() (e error) { v1, e = t.At(cc...); return })
				calls++
				if o.Class != "ok" {
					addFail("unexpected-refusal", cc, "%v", o.Class)
					return
				}
				mk := markerFor(d, old, cell)
				ref.SliceSet(b.Root, cell, mk)
				o = call(func() (e error) { v2, e = t.At(cc...); return })
				calls++
				ref.SliceSet(b.Root, cell, old)
				if o.Class != "ok" || !ref.Same(v1, old) || !ref.Same(v2, mk) {
					addFail("wrong-value", cc, "expected root cell %d (%s, after probe %s) got %s / %s", cell, ref.Fmt(old), ref.Fmt(mk), ref.Fmt(v1), ref.Fmt(v2))
				}
				if conv {
					want := d.Code(ref.RowRank(shape, cc))
					if !ref.Same(v1, want) {
						addFail("wrong-value", cc, "converting constructor: expected the row-major-rank element %s of the given sequence, got %s", ref.Fmt(want), ref.Fmt(v1))
					}
				}
			} else {
				mk := markerFor(d, old, cell)
				o := call(func() error { return t.SetAt(mk, cc...) })
				calls++
				ch := b.ChangedCells(snap)
				metaCh := atlas.MetaString(t) != snapMeta(snap)
				if o.Class != "ok" {
					addFail("unexpected-refusal", cc, "%v", o.Class)
				} else if len(ch) != 1 || ch[0] != cell || !ref.Same(ref.SliceGet(b.Root, cell), mk) || metaCh {
					addFail("frame-violated", cc, "SetAt must change exactly root cell %d; changed cells %v meta-changed=%v", cell, ch, metaCh)
				}
				b.RestoreRoot(snap)
			}
			return
		}
		oob++
		var o Outcome
		if op == "At" {
			o = call(func() (e error) { _, e = t.At(cc...); return })
		} else {
			o = call(func() error { return t.SetAt(d.Code(3), cc...) })
		}
		calls++
		switch o.Class {
		case "ok":
			addFail("accepted-invalid", cc, "out-of-range coordinate accepted")
		case "panic":
			addFail("panic-instead-of-error", cc, "%v", o.Panic)
		}
		if s := b.Changed(snap); s != "" {
			addFail("frame-violated", cc, "rejected/invalid coordinate changed state: %s", s)
			b.RestoreRoot(snap)
		}
	})
	// wrong arity (all components in range)
	for k := 0; k <= rk+1; k++ {
		if k == rk {
			continue
		}
		cc := make([]int, k)
		var o Outcome
		if op == "At" {
			o = call(func() (e error) { _, e = t.At(cc...); return })
		} else {
			o = call(func() error { return t.SetAt(d.Code(3), cc...) })
		}
		calls++
		oob++
		switch o.Class {
		case "ok":
			addFail("accepted-invalid", cc, "arity %d accepted for rank %d", k, rk)
		case "panic":
			addFail("panic-instead-of-error", cc, "arity %d: %v", k, o.Panic)
		}
		if s := b.Changed(snap); s != "" {
			addFail("frame-violated", cc, "wrong-arity call changed state: %s", s)
			b.RestoreRoot(snap)
		}
	}
	if len(fails) == 0 {
		return nil, calls, inr, oob
	}
	var ks []string
	for k := range kinds {
		ks = append(ks, k)
	}
	sortStrings(ks)
	all := strings.Join(fails, " ; ")
	return core.F(strings.Join(ks, "+"), fmt.Sprintf("%x", core.H64(stripDetail(fails))), "%s", all), calls, inr, oob
}

func c01Shapes(r *core.Run) [][]int {
	var ss [][]int
	if isQuick(r) {
		ss = append(ss, ref.ShapesUpTo(0, 3, 3)...)
		ss = append(ss, ref.Shapes(4, 2)...)
		ss = append(ss, []int{1, 1, 1, 3}, []int{2, 1, 3, 1}, []int{3, 2, 1, 2}, []int{4}, []int{5}, []int{1, 5}, []int{5, 1}, []int{4, 5})
		r.SetBound("shapes", "rank0-3 dims<=3, rank4 dims<=2, +8 specials (vectors to 5, (4,5), length-one axes)")
	} else {
		ss = append(ss, ref.ShapesUpTo(0, 4, 3)...)
		ss = append(ss, ref.ShapesUpTo(1, 2, 5)...)
		ss = append(ss, []int{1, 1, 1, 5}, []int{2, 1, 4, 1}, []int{4, 2, 1, 2}, []int{2, 2, 2, 4})
		r.SetBound("shapes", "rank0-4 dims<=3, rank1-2 dims<=5, +specials")
	}
	return ref.DedupShapes(ss)
}

// c01LibraryStorage: storage the LIBRARY allocates (New(Of(t), WithShape(...)), Clone, Materialize) holds what is written
// into it across garbage collections - for the element types that hold pointers (strings) this needs the storage to be
// visible to the collector. The collector is run explicitly and the heap refilled, so the check does not depend on when
// a collection happens to occur; it can only miss, never alarm falsely.
func c01LibraryStorage(r *core.Run) {
	r.SetBound("library_allocated_storage", "String and float64 tensors of 64 and 600 elements built by New(Of), Clone and Materialize of a view; every element written with a freshly built value, 3 forced collections with the heap refilled in between, every element read back")
	for _, d := range []ref.DT{ref.String, ref.Float64} {
		for _, n := range []int{64, 600} {
			for _, how := range []string{"New", "Clone", "Materialize"} {
				if !r.Take() {
					continue
				}
				d, n, how := d, n, how
				id := fmt.Sprintf("C01|libstorage|%s|%d|%s", d.Name, n, how)
				if r.ReplayCase != "" && id != r.ReplayCase {
					continue
				}
				r.Case(id, true, func() *core.Fail {
					tensor.VerifResetPools()
					val := func(i int) interface{} {
						if d.Name == "string" {
							return fmt.Sprintf("element-%d-%s", i, strings.Repeat("x", 16+i%7)) // built at run time: lives on the heap
						}
						return float64(i) + 0.5
					}
					var t *tensor.Dense
					switch how {
					case "New":
						t = tensor.New(tensor.Of(d.D), tensor.WithShape(n))
					default:
						src := tensor.New(tensor.Of(d.D), tensor.WithShape(2, n))
						for i := 0; i < n; i++ {
							src.SetAt(val(i), 1, i)
						}
						v, err := src.Slice(tensor.S(1))
						if err != nil {
							return nil
						}
						if how == "Clone" {
							t = v.(*tensor.Dense).Clone().(*tensor.Dense)
						} else {
							t = v.Materialize().(*tensor.Dense)
						}
						src, v = nil, nil
					}
					if how == "New" {
						for i := 0; i < n; i++ {
							if err := t.SetAt(val(i), i); err != nil {
								return core.F("unexpected-refusal", "set", "SetAt(%d): %v", i, err)
							}
						}
					}
					var junk [][]byte
					for k := 0; k < 3; k++ {
						runtime.GC()
						for i := 0; i < 20000; i++ {
							junk = append(junk, []byte(fmt.Sprintf("junk-%d-%d-%s", k, i, strings.Repeat("y", 12+i%9))))
						}
					}
					r.Op(n)
					bad, first := 0, -1
					for i := 0; i < n; i++ {
						v, err := t.At(i)
						if err != nil || !ref.Same(v, val(i)) {
							if first < 0 {
								first = i
							}
							bad++
						}
					}
					_ = junk
					if bad > 0 {
						return core.F("wrong-value", "gc", "%s tensor of %d elements in storage allocated by %s: after garbage collections %d elements read back as something else (first: element %d) - the storage is not visible to the collector", d.Name, n, how, bad, first)
					}
					return nil
				})
			}
		}
	}
}

// c01SeparateStorage: tensors the library allocates storage for own that storage. The same option VALUES (an option
// list built once) are applied to two tensors, every element of the first is overwritten, and the second - and a third
// built after the writes - must still read what their construction gave them. Options that share storage by contract
// (WithBacking, FromMemory) are not in the alphabet.
func c01SeparateStorage(r *core.Run) {
	r.SetBound("separate_storage", "option lists {FromScalar(x)}, {FromScalar(x), WithShape(1,1)}, {Of, WithShape}, {Of, WithShape, AsFortran(nil)}, Ones, each list applied three times (two before, one after the first tensor is overwritten); 7 element types; shapes (), (1,1), (2,3)")
	type form struct {
		id    string
		opts  func(d ref.DT, shape []int) []tensor.ConsOpt
		init  func(d ref.DT) interface{}
		shape []int
	}
	scalarInit := func(d ref.DT) interface{} { return d.Code(5) }
	zeroInit := func(d ref.DT) interface{} { return d.Zero() }
	forms := []form{
		{"FromScalar", func(d ref.DT, _ []int) []tensor.ConsOpt { return []tensor.ConsOpt{tensor.FromScalar(d.Code(5))} }, scalarInit, []int{}},
		{"FromScalar+WithShape(1,1)", func(d ref.DT, _ []int) []tensor.ConsOpt {
			return []tensor.ConsOpt{tensor.FromScalar(d.Code(5)), tensor.WithShape(1, 1)}
		}, scalarInit, []int{1, 1}},
		{"WithShape(1,1)+FromScalar", func(d ref.DT, _ []int) []tensor.ConsOpt {
			return []tensor.ConsOpt{tensor.WithShape(1, 1), tensor.FromScalar(d.Code(5))}
		}, scalarInit, []int{1, 1}},
		{"Of+WithShape(2,3)", func(d ref.DT, _ []int) []tensor.ConsOpt {
			return []tensor.ConsOpt{tensor.Of(d.D), tensor.WithShape(2, 3)}
		}, zeroInit, []int{2, 3}},
		{"Of+WithShape(2,3)+AsFortran", func(d ref.DT, _ []int) []tensor.ConsOpt {
			return []tensor.ConsOpt{tensor.Of(d.D), tensor.WithShape(2, 3), tensor.AsFortran(nil)}
		}, zeroInit, []int{2, 3}},
		{"Of+WithShape(1)", func(d ref.DT, _ []int) []tensor.ConsOpt {
			return []tensor.ConsOpt{tensor.Of(d.D), tensor.WithShape(1)}
		}, zeroInit, []int{1}},
	}
	for _, d := range ref.ALL18 {
		switch d.Name {
		case "bool", "uint8", "int", "float32", "float64", "complex128", "string":
		default:
			continue
		}
		for _, f := range forms {
			if !r.Take() {
				continue
			}
			d, f := d, f
			id := fmt.Sprintf("C01|separate|%s|%s", d.Name, f.id)
			if r.ReplayCase != "" && id != r.ReplayCase {
				continue
			}
			r.Case(id, true, func() *core.Fail {
				tensor.VerifResetPools()
				var a, b, c *tensor.Dense
				var opts []tensor.ConsOpt
				o := call(func() error {
					opts = f.opts(d, f.shape)
					a = tensor.New(opts...)
					b = tensor.New(opts...)
					return nil
				})
				if o.Class != "ok" || a == nil || b == nil {
					return nil
				}
				n := ref.Prod(f.shape)
				want := f.init(d)
				coords := func(k int) []int {
					co := make([]int, len(f.shape))
					for ax := len(f.shape) - 1; ax >= 0; ax-- {
						co[ax] = k % f.shape[ax]
						k /= f.shape[ax]
					}
					return co
				}
				readAll := func(t *tensor.Dense, who string) *core.Fail {
					for k := 0; k < n; k++ {
						var v interface{}
						var err error
						if len(f.shape) == 0 {
							v = t.ScalarValue()
						} else {
							v, err = t.At(coords(k)...)
						}
						if err != nil {
							return core.F("unexpected-refusal", who, "At%v of the %s tensor: %v", coords(k), who, err)
						}
						if !ref.Same(v, want) {
							return core.F("wrong-value", who, "tensors built from the same option values share storage: element %v of the %s tensor reads %v after every element of the FIRST tensor was overwritten, construction gave %v", coords(k), who, v, want)
						}
					}
					return nil
				}
				if fl := readAll(a, "first"); fl != nil {
					return fl
				}
				for k := 0; k < n; k++ {
					mark := markerFor(d, want, k)
					var err error
					if len(f.shape) == 0 {
						a.Set(0, mark)
					} else {
						err = a.SetAt(mark, coords(k)...)
					}
					if err != nil {
						return core.F("unexpected-refusal", "set", "SetAt%v: %v", coords(k), err)
					}
				}
				r.Op(3 * n)
				if fl := readAll(b, "second"); fl != nil {
					return fl
				}
				o = call(func() error { c = tensor.New(opts...); return nil })
				if o.Class != "ok" || c == nil {
					return core.F("unexpected-refusal", "third", "the option list that built two tensors refuses a third: %s", o.String())
				}
				return readAll(c, "built-afterwards")
			})
		}
	}
}

func runC01(r *core.Run) {
	c01LibraryStorage(r)
	c01SeparateStorage(r)
	shapes := c01Shapes(r)
	r.SetBound("coordinate_box", "[-2,dim+1] on every axis, complete; every arity 0..rank+1")
	viewDT := map[string]int{"bool": 1, "uint8": 2, "int16": 1, "float32": 1, "float64": 2, "complex128": 1, "string": 1}
	if !isQuick(r) {
		for _, d := range ref.ALL18 {
			if viewDT[d.Name] == 0 {
				viewDT[d.Name] = 1
			}
		}
	}
	r.SetBound("view_graph_depth", "atlas layouts for all 18 types; view graph depth 1 for width representatives (thorough: all types), depth 2 for uint8/float64 on shapes with <=27 elements")
	for _, d := range ref.ALL18 {
		for _, shape := range shapes {
			d, shape := d, shape
			n := ref.Prod(shape)
			var states []c01state
			// roots and atlas layouts
			for _, lay := range []string{"C", "F", "Fc", "T", "S", "SS", "ST", "TS", "FS", "FT", "DC", "DT", "DS"} {
				lay := lay
				states = append(states, c01state{id: lay, conv: lay == "Fc", mk: func() (*atlas.Built, string) {
					vals := make([]interface{}, n)
					for i := range vals {
						vals[i] = d.Code(i)
					}
					b, err := atlas.Build(d, shape, vals, lay)
					if err != nil {
						return nil, "na"
					}
					return b, "ok"
				}})
			}
			// the column-major declaration given in every ORDER of the construction options (the options are applied one
			// after the other to a half-built tensor), through NewDense, and on a tensor that is reshaped afterwards
			if len(shape) >= 2 && (d.Name == "float64" || d.Name == "uint8" || d.Name == "string") {
				for _, ord := range []string{"SBF", "SFB", "BSF", "BFS", "FSB", "FBS", "NewDense", "Reshape"} {
					ord := ord
					states = append(states, c01state{id: "Fopt:" + ord, mk: func() (*atlas.Built, string) {
						back := d.MakeSlice(n)
						var t *tensor.Dense
						o := call(func() error {
							optOf := map[byte]tensor.ConsOpt{'S': tensor.WithShape(shape...), 'B': tensor.WithBacking(back), 'F': tensor.AsFortran(nil)}
							switch ord {
							case "NewDense":
								t = tensor.NewDense(d.D, tensor.Shape(ref.CopyInts(shape)), tensor.AsFortran(nil))
								back = t.Data()
							case "Reshape":
								// declared column-major with another shape of the same size first
								t = tensor.New(tensor.WithShape(n, 1), tensor.WithBacking(back), tensor.AsFortran(nil))
								return t.Reshape(shape...)
							default:
								t = tensor.New(optOf[ord[0]], optOf[ord[1]], optOf[ord[2]])
							}
							return nil
						})
						if o.Class != "ok" || t == nil || !ref.EqInts(t.Shape(), shape) {
							return nil, "na"
						}
						return &atlas.Built{DT: d, Layout: "Fopt:" + ord, T: t, Root: back, RootT: t, View: ref.RootF(shape)}, "ok"
					}})
				}
			}
			// view graph states
			depth := viewDT[d.Name]
			if depth == 2 && n > 27 {
				depth = 1
			}
			if depth > 0 && len(shape) >= 1 {
				for _, fortran := range []bool{false, true} {
					if fortran && (len(shape) < 2 || depth > 1 && d.Name != "float64") {
						continue
					}
					fortran := fortran
					for _, path := range atlas.ViewStates(shape, fortran, depth, true) {
						if len(path) == 0 {
							continue
						}
						path := path
						pre := "vg:"
						if fortran {
							pre = "vgF:"
						}
						states = append(states, c01state{id: pre + atlas.PathString(path), mk: func() (*atlas.Built, string) {
							b, cls := atlas.Replay(d, shape, fortran, path)
							if b == nil {
								return nil, cls
							}
							return b, "ok"
						}})
					}
				}
			}
			for _, st := range states {
				if !r.Take() {
					continue
				}
				if r.Expired() {
					return
				}
				for _, op := range []string{"At", "SetAt"} {
					op, st := op, st
					id := fmt.Sprintf("C01|%s|%s|%s|%s", d.Name, shapeStr(shape), st.id, op)
					if r.ReplayCase != "" && id != r.ReplayCase {
						continue
					}
					tensor.VerifResetPools()
					b, cls := st.mk()
					if b == nil {
						r.Dim("skipped_states", cls)
						continue
					}
					if st.id != "Fc" && !strings.HasPrefix(st.id, "vg") {
						// atlas layouts write values at the model's cells; identity-code the whole root instead
						d.FillCodes(b.Root, 0)
					} else if strings.HasPrefix(st.id, "vg") {
						d.FillCodes(b.Root, 0)
					}
					if st.id == "Fc" {
						// the converting constructor rearranged the sequence Code(0..n-1) in place: keep it
						b2, ok := buildFc(d, shape)
						if !ok {
							r.Dim("skipped_states", "na")
							continue
						}
						b = b2
					}
					if strings.HasPrefix(st.id, "vg") {
						// C01 decides that At/SetAt address the tensor's access pattern; whether a view's access
						// pattern denotes the right cells is C02/C03's question: skip states where they differ.
						if cells, ok := b.APCells(); !ok || !ref.EqInts(cells, b.View.Cell) {
							r.Dim("skipped_states", "access-pattern-differs-from-model(C02/C03)")
							continue
						}
					}
					r.State(atlas.StateKey(b.T, atlas.RootPtr(b.Root)))
					r.Dim("dtype", d.Name)
					r.Dim("rank", fmt.Sprint(len(shape)))
					r.Dim("state_kind", strings.SplitN(st.id, ":", 2)[0])
					r.Case(id, n >= 1, func() *core.Fail {
						f, calls, inr, oob := sweepBox(b, op, st.conv)
						r.Op(calls)
						r.Dim("calls", "in-range:"+op)
						if inr > 0 {
							r.Outcome(op + ":in-range-delivered")
						}
						if oob > 0 {
							r.Outcome(op + ":out-of-range-or-arity-judged")
						}
						if f != nil {
							r.Outcome(op + ":" + f.Kind)
						}
						return f
					})
				}
			}
		}
	}
}

// buildFc builds New(WithShape, AsFortran(seq)) with seq = Code(0..n-1) in row-major meaning; the model of the
// resulting tensor over the (rearranged, shared) backing is column-major.
func buildFc(d ref.DT, shape []int) (*atlas.Built, bool) {
	if len(shape) < 2 {
		return nil, false
	}
	n := ref.Prod(shape)
	seq := d.MakeSlice(n)
	d.FillCodes(seq, 0)
	var t *tensor.Dense
	o := call(func() error {
		t = tensor.New(tensor.WithShape(shape...), tensor.AsFortran(seq))
		return nil
	})
	if o.Class != "ok" {
		return nil, false
	}
	b := &atlas.Built{DT: d, Layout: "Fc", T: t, RootT: t, View: ref.RootF(shape)}
	// the tensor's storage is the given slice (documented sharing) — but do not trust that: use Data()'s view
	// only if it is the same memory as seq; otherwise treat the tensor's own storage as root.
	data := t.Data()
	if atlas.RootPtr(data) == atlas.RootPtr(seq) {
		b.Root = seq
	} else {
		b.Root = data
	}
	return b, true
}

func snapMeta(s atlas.Snap) string { return atlas.SnapMeta(s) }

func sortStrings(s []string) {
	for i := 1; i < len(s); i++ {
		for j := i; j > 0 && s[j] < s[j-1]; j-- {
			s[j], s[j-1] = s[j-1], s[j]
		}
	}
}

// stripDetail keeps, for the digest, only kind@coord of each failing call (no values / error text).
func stripDetail(fails []string) string {
	var sb strings.Builder
	for _, f := range fails {
		if i := strings.Index(f, ":"); i > 0 {
			sb.WriteString(f[:i])
		} else {
			sb.WriteString(f)
		}
		sb.WriteByte(';')
	}
	return sb.String()
}
