package props

import (
	"fmt"
	"math"
	"reflect"

	"gorgonia.org/tensor"
	"verifharness/ref"
)

// c17Extra: entry points with per-type or per-width code that the coverage of all twenty checks showed as never
// executed: the constructors Ones and I (one case per element type), the float32 / float64 soft-max kernels (forward and
// backward, last and inner axis), selection by indices and its gradient, and Diag (one case per element width).
func c17Extra() []c17inst {
	var out []c17inst
	num := ref.NUM14
	fl := []ref.DT{ref.Float32, ref.Float64}
	// ---- constructors
	out = append(out, c17inst{family: "constructor", op: "Ones", variant: "(2,3)", run: func(d ref.DT) ([]interface{}, bool, string) {
		var t *tensor.Dense
		o := call(func() error { t = tensor.Ones(d.D, 2, 3); return nil })
		if o.Class != "ok" {
			return nil, true, ""
		}
		return resOfD(t, nil)
	}, generic: func() []float64 { return []float64{1, 1, 1, 1, 1, 1} }, dts: num})
	for _, k := range []int{0, 1, -1, 2, -2, 4} {
		k := k
		out = append(out, c17inst{family: "constructor", op: "I", variant: fmt.Sprintf("(3,4),k=%d", k), run: func(d ref.DT) ([]interface{}, bool, string) {
			var t *tensor.Dense
			o := call(func() error { t = tensor.I(d.D, 3, 4, k); return nil })
			if o.Class != "ok" {
				return nil, true, ""
			}
			return resOfD(t, nil)
		}, generic: func() []float64 {
			o := make([]float64, 12)
			for r := 0; r < 3; r++ {
				for c := 0; c < 4; c++ {
					if c-r == k {
						o[r*4+c] = 1
					}
				}
			}
			return o
		}, dts: num})
	}
	// ---- soft-max family
	xs := []int{1, 2, 3, 4, 6, 5, 2, 2, 1, 0, 3, 1}
	gs := []int{1, 0, 2, 1, 1, 3, 0, 2, 1, 1, 0, 2}
	shape := []int{2, 3, 2}
	fx := func(ks []int) []float64 {
		o := make([]float64, len(ks))
		for i, k := range ks {
			o[i] = float64(k) / 2
		}
		return o
	}
	half := func(d ref.DT, ks []int) []interface{} {
		v := make([]interface{}, len(ks))
		for i, k := range ks {
			if d.Name == "float32" {
				v[i] = float32(k) / 2
			} else {
				v[i] = float64(k) / 2
			}
		}
		return v
	}
	// lanes(axis) calls f with the flat indices of every lane along axis
	lanes := func(axis int, f func(idx []int)) {
		strides := []int{6, 2, 1}
		for i := 0; i < 12; i++ {
			c := (i / strides[axis]) % shape[axis]
			if c != 0 {
				continue
			}
			idx := make([]int, shape[axis])
			for k := range idx {
				idx[k] = i + k*strides[axis]
			}
			f(idx)
		}
	}
	softmax := func(x []float64, axis int, logf bool) []float64 {
		o := make([]float64, len(x))
		lanes(axis, func(idx []int) {
			mx := math.Inf(-1)
			for _, i := range idx {
				mx = math.Max(mx, x[i])
			}
			sum := 0.0
			for _, i := range idx {
				sum += math.Exp(x[i] - mx)
			}
			for _, i := range idx {
				if logf {
					o[i] = x[i] - mx - math.Log(sum)
				} else {
					o[i] = math.Exp(x[i]-mx) / sum
				}
			}
		})
		return o
	}
	for _, axis := range []int{0, 1, 2} {
		axis := axis
		for _, logf := range []bool{false, true} {
			logf := logf
			name := "SoftMax"
			if logf {
				name = "LogSoftMax"
			}
			out = append(out, c17inst{family: "softmax", op: name, variant: fmt.Sprintf("axis%d", axis), run: func(d ref.DT) ([]interface{}, bool, string) {
				x := mkContig(d, shape, half(d, xs))
				if logf {
					return resOf(tensor.LogSoftMax(x, axis))
				}
				return resOf(tensor.SoftMax(x, axis))
			}, generic: func() []float64 { return softmax(fx(xs), axis, logf) }, dts: fl})
			// backward: given the forward OUTPUT and the incoming gradient
			out = append(out, c17inst{family: "softmax", op: name + "B", variant: fmt.Sprintf("axis%d", axis), run: func(d ref.DT) ([]interface{}, bool, string) {
				outv := softmax(fx(xs), axis, logf)
				ov := make([]interface{}, len(outv))
				for i, f := range outv {
					if d.Name == "float32" {
						ov[i] = float32(f)
					} else {
						ov[i] = f
					}
				}
				y := mkContig(d, shape, ov)
				g := mkContig(d, shape, half(d, gs))
				if logf {
					return resOf(tensor.LogSoftMaxB(y, g, axis))
				}
				return resOf(tensor.SoftMaxB(y, g, axis))
			}, generic: func() []float64 {
				y := softmax(fx(xs), axis, logf)
				g := fx(gs)
				o := make([]float64, len(y))
				lanes(axis, func(idx []int) {
					if logf {
						sum := 0.0
						for _, i := range idx {
							sum += g[i]
						}
						for _, i := range idx {
							o[i] = g[i] - math.Exp(y[i])*sum
						}
						return
					}
					dot := 0.0
					for _, i := range idx {
						dot += g[i] * y[i]
					}
					for _, i := range idx {
						o[i] = y[i] * (g[i] - dot)
					}
				})
				return o
			}, dts: fl})
		}
	}
	// ---- selection by indices (copies by element width) and its gradient (adds per element type)
	sel := []int{2, 0, 2, 1}
	src := []int{1, 2, 3, 4, 5, 6}
	for _, axis := range []int{0, 1} {
		axis := axis
		shp := []int{3, 2}
		if axis == 1 {
			shp = []int{2, 3}
		}
		pick := func() []float64 {
			var o []float64
			if axis == 0 {
				for _, s := range sel {
					o = append(o, float64(src[s*2]), float64(src[s*2+1]))
				}
				return o
			}
			for r := 0; r < 2; r++ {
				for _, s := range sel {
					o = append(o, float64(src[r*3+s]))
				}
			}
			return o
		}
		out = append(out, c17inst{family: "select", op: "ByIndices", variant: fmt.Sprintf("axis%d", axis), run: func(d ref.DT) ([]interface{}, bool, string) {
			a := mkContig(d, shp, c17Vals(d, src))
			idx := tensor.New(tensor.WithShape(len(sel)), tensor.WithBacking(append([]int{}, sel...)))
			return resOf(tensor.ByIndices(a, idx, axis))
		}, generic: pick, dts: num})
		if axis == 1 {
			// ByIndicesB along the inner axis delivers the same (questionable: not the scatter-add of the gradient) result
			// for every element type; what it should deliver is outside the twenty properties, so it is not judged here
			continue
		}
		out = append(out, c17inst{family: "select", op: "ByIndicesB", variant: fmt.Sprintf("axis%d", axis), run: func(d ref.DT) ([]interface{}, bool, string) {
			a := mkContig(d, shp, c17Vals(d, src))
			gshape := []int{len(sel), 2}
			if axis == 1 {
				gshape = []int{2, len(sel)}
			}
			g := mkContig(d, gshape, c17Vals(d, []int{1, 2, 3, 4, 5, 6, 7, 8}))
			idx := tensor.New(tensor.WithShape(len(sel)), tensor.WithBacking(append([]int{}, sel...)))
			return resOf(tensor.ByIndicesB(a, g, idx, axis))
		}, generic: func() []float64 {
			// scatter-add of the gradient rows/columns back to the selected positions
			o := make([]float64, 6)
			gv := []float64{1, 2, 3, 4, 5, 6, 7, 8}
			if axis == 0 {
				for i, s := range sel {
					o[s*2] += gv[i*2]
					o[s*2+1] += gv[i*2+1]
				}
				return o
			}
			for r := 0; r < 2; r++ {
				for i, s := range sel {
					o[r*3+s] += gv[r*len(sel)+i]
				}
			}
			return o
		}, dts: num})
	}
	// ---- Diag (one copy loop per element width)
	for _, shp := range [][]int{{3, 3}, {2, 3}, {3, 2}} {
		shp := shp
		n := shp[0] * shp[1]
		ks := make([]int, n)
		for i := range ks {
			ks[i] = i + 1
		}
		out = append(out, c17inst{family: "select", op: "Diag", variant: shapeStr(shp), run: func(d ref.DT) ([]interface{}, bool, string) {
			a := mkContig(d, shp, c17Vals(d, ks))
			var res tensor.Tensor
			var err error
			if o := call(func() error { res, err = tensor.Diag(a); return nil }); o.Class != "ok" {
				return nil, false, fmt.Sprint("panic: ", o.Panic)
			}
			if err != nil {
				return nil, true, ""
			}
			rd, ok := res.(*tensor.Dense)
			if !ok {
				return nil, false, "not a *Dense"
			}
			m := shp[0]
			if shp[1] < m {
				m = shp[1]
			}
			// the diagonal is delivered in the first min(r,c) elements
			var vals []interface{}
			for i := 0; i < m; i++ {
				vals = append(vals, rd.Get(i))
			}
			return vals, false, ""
		}, generic: func() []float64 {
			m := shp[0]
			if shp[1] < m {
				m = shp[1]
			}
			o := make([]float64, m)
			for i := range o {
				o[i] = float64(ks[i*shp[1]+i])
			}
			return o
		}, dts: num})
	}
	// ---- accumulation: a sum is the left fold IN the element type. Values whose partial sums round in that type (2^24 + 1
	// in float32, 2^53 + 1 in float64): one instance per float type, because the expected number depends on the type
	for _, d := range fl {
		d := d
		big := float64(uint64(1) << 53)
		if d.Name == "float32" {
			big = float64(1 << 24)
		}
		seq := []float64{big, 1, 1, -3, 1, 1}
		fold := func(idx []int) float64 {
			var acc interface{} = ref.FromFloat(d, seq[idx[0]])
			for _, i := range idx[1:] {
				acc = ref.Arith("Add", acc, ref.FromFloat(d, seq[i])).V
			}
			f, _ := toF(acc)
			return f
		}
		mkT := func(shape []int) *tensor.Dense {
			v := make([]interface{}, len(seq))
			for i, f := range seq {
				v[i] = ref.FromFloat(d, f)
			}
			return mkContig(d, shape, v)
		}
		out = append(out,
			c17inst{family: "reduce", op: "Sum(rounding)", variant: d.Name + "-all", run: func(dd ref.DT) ([]interface{}, bool, string) {
				return resOf(tensor.Sum(mkT([]int{6})))
			}, generic: func() []float64 { return []float64{fold([]int{0, 1, 2, 3, 4, 5})} }, dts: []ref.DT{d}},
			c17inst{family: "reduce", op: "Sum(rounding)", variant: d.Name + "-last", run: func(dd ref.DT) ([]interface{}, bool, string) {
				return resOf(tensor.Sum(mkT([]int{2, 3}), 1))
			}, generic: func() []float64 { return []float64{fold([]int{0, 1, 2}), fold([]int{3, 4, 5})} }, dts: []ref.DT{d}},
			c17inst{family: "reduce", op: "Sum(rounding)", variant: d.Name + "-first", run: func(dd ref.DT) ([]interface{}, bool, string) {
				return resOf(tensor.Sum(mkT([]int{3, 2}), 0))
			}, generic: func() []float64 { return []float64{fold([]int{0, 2, 4}), fold([]int{1, 3, 5})} }, dts: []ref.DT{d}},
		)
	}
	// ---- order by VALUE, not by a difference: operands 2^62 apart and more (their difference does not fit a signed 64-bit
	// type; all of them are exactly representable in float32, float64, int and int64, and the results of min/max/arg and
	// of the comparisons are among the operands or are booleans)
	{
		big := float64(uint64(1) << 62)
		xs := []float64{big, -big, 0, -big, big, 1}
		ys := []float64{-big, big, big, 0, 1, -big}
		wide := []ref.DT{ref.Int, ref.Int64, ref.Float32, ref.Float64}
		conv := func(d ref.DT, f float64) interface{} {
			return reflect.ValueOf(f).Convert(d.D.Type).Interface()
		}
		mk := func(d ref.DT, fs []float64, shape []int) *tensor.Dense {
			v := make([]interface{}, len(fs))
			for i, f := range fs {
				v[i] = conv(d, f)
			}
			return mkContig(d, shape, v)
		}
		b2f := func(b bool) float64 {
			if b {
				return 1
			}
			return 0
		}
		type bop struct {
			name string
			fn   func(a, b interface{}, opts ...tensor.FuncOpt) (tensor.Tensor, error)
			g    func(x, y float64) float64
		}
		for _, o := range []bop{
			{"MinBetween", tensor.MinBetween, math.Min}, {"MaxBetween", tensor.MaxBetween, math.Max},
			{"Lt", tensor.Lt, func(x, y float64) float64 { return b2f(x < y) }}, {"Gte", tensor.Gte, func(x, y float64) float64 { return b2f(x >= y) }},
			{"Gt", tensor.Gt, func(x, y float64) float64 { return b2f(x > y) }}, {"Lte", tensor.Lte, func(x, y float64) float64 { return b2f(x <= y) }},
		} {
			o := o
			for _, shape := range [][]int{{6}, {2, 3}} {
				shape := shape
				gen := func() []float64 {
					r := make([]float64, len(xs))
					for i := range xs {
						r[i] = o.g(xs[i], ys[i])
					}
					return r
				}
				out = append(out,
					c17inst{family: "wide-order", op: o.name, variant: "TT" + shapeStr(shape), run: func(d ref.DT) ([]interface{}, bool, string) {
						return resOf(o.fn(mk(d, xs, shape), mk(d, ys, shape)))
					}, generic: gen, dts: wide},
					c17inst{family: "wide-order", op: o.name, variant: "TT-same" + shapeStr(shape), run: func(d ref.DT) ([]interface{}, bool, string) {
						return resOf(o.fn(mk(d, xs, shape), mk(d, ys, shape), tensor.AsSameType()))
					}, generic: gen, dts: wide},
					c17inst{family: "wide-order", op: o.name, variant: "TS" + shapeStr(shape), run: func(d ref.DT) ([]interface{}, bool, string) {
						return resOf(o.fn(mk(d, xs, shape), conv(d, -big)))
					}, generic: func() []float64 {
						r := make([]float64, len(xs))
						for i := range xs {
							r[i] = o.g(xs[i], -big)
						}
						return r
					}, dts: wide},
					c17inst{family: "wide-order", op: o.name, variant: "ST" + shapeStr(shape), run: func(d ref.DT) ([]interface{}, bool, string) {
						return resOf(o.fn(conv(d, big), mk(d, ys, shape)))
					}, generic: func() []float64 {
						r := make([]float64, len(ys))
						for i := range ys {
							r[i] = o.g(big, ys[i])
						}
						return r
					}, dts: wide})
			}
		}
		// reductions and arg-reductions of the (2,3) arrangement [big -big 0; -big big 1]
		fold := func(idx []int, f func(x, y float64) float64) float64 {
			acc := xs[idx[0]]
			for _, i := range idx[1:] {
				acc = f(acc, xs[i])
			}
			return acc
		}
		for _, m := range []struct {
			name string
			f    func(x, y float64) float64
			red  func(t *tensor.Dense, ax ...int) (*tensor.Dense, error)
		}{
			{"Min", math.Min, func(t *tensor.Dense, ax ...int) (*tensor.Dense, error) { return t.Min(ax...) }},
			{"Max", math.Max, func(t *tensor.Dense, ax ...int) (*tensor.Dense, error) { return t.Max(ax...) }},
		} {
			m := m
			out = append(out,
				c17inst{family: "wide-order", op: m.name, variant: "axis0", run: func(d ref.DT) ([]interface{}, bool, string) {
					return resOfD(m.red(mk(d, xs, []int{2, 3}), 0))
				}, generic: func() []float64 {
					return []float64{fold([]int{0, 3}, m.f), fold([]int{1, 4}, m.f), fold([]int{2, 5}, m.f)}
				}, dts: wide},
				c17inst{family: "wide-order", op: m.name, variant: "axis1", run: func(d ref.DT) ([]interface{}, bool, string) {
					return resOfD(m.red(mk(d, xs, []int{2, 3}), 1))
				}, generic: func() []float64 { return []float64{fold([]int{0, 1, 2}, m.f), fold([]int{3, 4, 5}, m.f)} }, dts: wide},
				c17inst{family: "wide-order", op: m.name, variant: "all", run: func(d ref.DT) ([]interface{}, bool, string) {
					return resOfD(m.red(mk(d, xs, []int{2, 3})))
				}, generic: func() []float64 { return []float64{fold([]int{0, 1, 2, 3, 4, 5}, m.f)} }, dts: wide},
				c17inst{family: "wide-order", op: m.name, variant: "middle(3,2,1)", run: func(d ref.DT) ([]interface{}, bool, string) {
					return resOfD(m.red(mk(d, xs, []int{3, 2, 1}), 1))
				}, generic: func() []float64 {
					return []float64{fold([]int{0, 1}, m.f), fold([]int{2, 3}, m.f), fold([]int{4, 5}, m.f)}
				}, dts: wide})
		}
		out = append(out,
			c17inst{family: "wide-order", op: "Argmax", variant: "axis1", run: func(d ref.DT) ([]interface{}, bool, string) {
				return resOf(tensor.Argmax(mk(d, xs, []int{2, 3}), 1))
			}, generic: func() []float64 { return []float64{0, 1} }, dts: wide},
			c17inst{family: "wide-order", op: "Argmin", variant: "axis1", run: func(d ref.DT) ([]interface{}, bool, string) {
				return resOf(tensor.Argmin(mk(d, xs, []int{2, 3}), 1))
			}, generic: func() []float64 { return []float64{1, 0} }, dts: wide},
			c17inst{family: "wide-order", op: "Argmin", variant: "axis0", run: func(d ref.DT) ([]interface{}, bool, string) {
				return resOf(tensor.Argmin(mk(d, xs, []int{2, 3}), 0))
			}, generic: func() []float64 { return []float64{1, 0, 0} }, dts: wide},
			c17inst{family: "wide-order", op: "Argmax", variant: "all", run: func(d ref.DT) ([]interface{}, bool, string) {
				return resOf(tensor.Argmax(mk(d, xs, []int{2, 3}), tensor.AllAxes))
			}, generic: func() []float64 { return []float64{0} }, dts: wide})
	}
	// ---- MaskFromSlice: one loop per slice element type (non-zero elements are masked)
	mks := []int{0, 1, 0, 2, 0, 3}
	out = append(out, c17inst{family: "maskpred", op: "MaskFromSlice", variant: "(6)", run: func(d ref.DT) ([]interface{}, bool, string) {
		t := tensor.New(tensor.Of(tensor.Float64), tensor.WithShape(6))
		x := d.MakeSlice(6)
		for i, k := range mks {
			ref.SliceSet(x, i, d.Code(k))
		}
		if o := call(func() error { t.MaskFromSlice(x); return nil }); o.Class != "ok" {
			return nil, false, fmt.Sprint("panic: ", o.Panic)
		}
		m := t.Mask()
		if len(m) != 6 {
			return nil, false, fmt.Sprintf("mask of length %d", len(m))
		}
		res := make([]interface{}, 6)
		for i, b := range m {
			if b {
				res[i] = float64(1)
			} else {
				res[i] = float64(0)
			}
		}
		return res, false, ""
	}, generic: func() []float64 { return []float64{0, 1, 0, 1, 0, 1} }, dts: num})
	return out
}
