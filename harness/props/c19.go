package props

import (
	"fmt"
	"runtime"
	"runtime/debug"
	"strings"
	"time"

	"gorgonia.org/tensor"
	"verifharness/atlas"
	"verifharness/core"
	"verifharness/ref"
)

func init() {
	register(&Def{ID: "C19", Engine: "E2", Run: runC19,
		Rule: "explicit-state BFS over operation HISTORIES: state = a population of <= 3 live tensors (and views of them), the caller-owned argument slices and the library's global pools; alphabet ~ 40 event templates instantiated over the live tensors (construction, slicing, T/UT/Transpose with caller axes, Reshape, Clone/Materialize, arithmetic in safe/unsafe/reuse modes, Sum/Argmax with caller axes, MatMul/TensorMul/Dot with caller axes, Concat/Stack/Repeat with caller counts, iterator create+drain, ReturnTensor, UsePool/DontUsePool, GC+finalizers; one-element and scalar tensors as operands of MaxBetween; calls that are refused after their options were parsed), and a second universe searched one level deeper: masked / plain / column-major-converted constructors, row views, ReturnTensor of views and roots, masking predicates, Clone, Materialize, Concat, Dot, ShallowClone + ReturnTensor; " +
			"successor = replay of the history on fresh objects + one event; dedup on (fingerprints of all live tensors, view relation, free-list sizes, pool flag); two pool environments (always recycle the most recently returned slice / never recycle). " +
			"invariants after EVERY event: (1) every live tensor other than the designated destination has an unchanged fingerprint (shape, strides, order, pending transpose, mask, storage); (2) caller-owned slices are byte-identical over their full capacity; (3) overwriting a caller slice afterwards changes no live tensor (not retained); (4) no metadata slice of a live tensor and no caller slice is in a free list, no slice is in a free list twice, no object is twice in ANY registered pool (tensor headers, option records, scalar headers) - every such alarm is confirmed concretely by borrowing the slice and observing the victim change. one case = one history state with all its outgoing events; non-trivial = history length >= 1",
		Assume: []string{"whether the VALUES delivered by an operation are right is the subject of C06-C12; C19 judges only what happens to the OTHER live tensors, the caller's slices and the pools", "the sync.Pool shim is a legal refinement of sync.Pool"}})
}

type c19t struct {
	t      *tensor.Dense
	parent int // index of the tensor it is a view of, -1
	fp     string
}

type c19world struct {
	live   []*c19t
	nextID int
}

type c19ev struct {
	name string
	// apply performs the event; dest = index of the live tensor it may legitimately modify (-1 none);
	// returns ok=false when the event is not applicable in this state; callerSlices are (slice, snapshot) pairs
	apply func(w *c19world) (dest int, slices [][]int, ok bool)
}

func mkSlice(vals ...int) []int {
	s := make([]int, len(vals), len(vals)+2)
	copy(s, vals)
	full := s[:cap(s)]
	for i := len(vals); i < len(full); i++ {
		full[i] = 77
	}
	return s
}

func (w *c19world) add(t *tensor.Dense, parent int) {
	if t == nil {
		return
	}
	w.live = append(w.live, &c19t{t: t, parent: parent})
}

func c19Events(nlive int) []c19ev {
	var evs []c19ev
	newT := func(name string, shape []int) c19ev {
		return c19ev{"New" + name, func(w *c19world) (int, [][]int, bool) {
			if len(w.live) >= 3 {
				return -1, nil, false
			}
			sh := mkSlice(shape...)
			n := ref.Prod(shape)
			back := make([]float64, n)
			for i := range back {
				back[i] = float64(100*(w.nextID+1) + i)
			}
			w.nextID++
			w.add(tensor.New(tensor.WithShape(sh...), tensor.WithBacking(back)), -1)
			return len(w.live) - 1, [][]int{sh}, true
		}}
	}
	evs = append(evs, newT("(2,3)", []int{2, 3}), newT("(3)", []int{3}), newT("(2,2,2)", []int{2, 2, 2}), newT("(3,2)", []int{3, 2}), newT("(1)", []int{1}), newT("(2,2)", []int{2, 2}))
	evs = append(evs, c19ev{"NewScalar", func(w *c19world) (int, [][]int, bool) {
		if len(w.live) >= 3 {
			return -1, nil, false
		}
		w.nextID++
		w.add(tensor.New(tensor.FromScalar(float64(100*w.nextID))), -1)
		return len(w.live) - 1, nil, true
	}})
	evs = append(evs, c19ev{"UsePool", func(w *c19world) (int, [][]int, bool) { tensor.UsePool(); return -1, nil, true }},
		c19ev{"DontUsePool", func(w *c19world) (int, [][]int, bool) { tensor.DontUsePool(); return -1, nil, true }},
		c19ev{"GC", func(w *c19world) (int, [][]int, bool) { gcAndFinalizers(); return -1, nil, true }})
	for i := 0; i < nlive; i++ {
		i := i
		un := func(name string, f func(w *c19world, t *tensor.Dense) (dest int, slices [][]int, ok bool)) {
			evs = append(evs, c19ev{fmt.Sprintf("%s(%d)", name, i), func(w *c19world) (int, [][]int, bool) {
				if i >= len(w.live) {
					return -1, nil, false
				}
				return f(w, w.live[i].t)
			}})
		}
		un("SliceRows", func(w *c19world, t *tensor.Dense) (int, [][]int, bool) {
			if len(w.live) >= 4 || t.Dims() < 1 || t.Shape()[0] < 2 {
				return -1, nil, false
			}
			v, err := t.Slice(tensor.S(1, t.Shape()[0]))
			if err != nil {
				return -1, nil, true
			}
			w.add(v.(*tensor.Dense), i)
			return len(w.live) - 1, nil, true
		})
		un("SliceAll", func(w *c19world, t *tensor.Dense) (int, [][]int, bool) {
			// the whole tensor as a view (no slice given): shares the storage, nothing else
			if len(w.live) >= 4 || t.Dims() < 1 {
				return -1, nil, false
			}
			v, err := t.Slice()
			if err != nil {
				return -1, nil, true
			}
			w.add(v.(*tensor.Dense), i)
			return len(w.live) - 1, nil, true
		})
		un("SliceCol", func(w *c19world, t *tensor.Dense) (int, [][]int, bool) {
			if len(w.live) >= 4 || t.Dims() < 2 {
				return -1, nil, false
			}
			v, err := t.Slice(nil, tensor.S(0))
			if err != nil {
				return -1, nil, true
			}
			w.add(v.(*tensor.Dense), i)
			return len(w.live) - 1, nil, true
		})
		un("T", func(w *c19world, t *tensor.Dense) (int, [][]int, bool) {
			if t.Dims() < 2 {
				return -1, nil, false
			}
			ax := mkSlice(ref.Reversal(t.Dims())...)
			t.T(ax...)
			return i, [][]int{ax}, true
		})
		un("Trot", func(w *c19world, t *tensor.Dense) (int, [][]int, bool) {
			if t.Dims() < 3 {
				return -1, nil, false
			}
			ax := mkSlice(1, 2, 0)
			t.T(ax...)
			return i, [][]int{ax}, true
		})
		un("T()", func(w *c19world, t *tensor.Dense) (int, [][]int, bool) {
			if t.Dims() < 2 {
				return -1, nil, false
			}
			t.T()
			return i, nil, true
		})
		un("UT", func(w *c19world, t *tensor.Dense) (int, [][]int, bool) { t.UT(); return i, nil, true })
		un("Transpose", func(w *c19world, t *tensor.Dense) (int, [][]int, bool) {
			if t.IsView() {
				return -1, nil, false // recorded C04 finding: physical transpose of a view overwrites the parent
			}
			t.Transpose()
			return i, nil, true
		})
		un("RollAxis", func(w *c19world, t *tensor.Dense) (int, [][]int, bool) {
			if t.Dims() < 2 {
				return -1, nil, false
			}
			t.RollAxis(t.Dims()-1, 0, false)
			return i, nil, true
		})
		un("Reshape", func(w *c19world, t *tensor.Dense) (int, [][]int, bool) {
			if t.IsView() {
				return -1, nil, false
			}
			d := mkSlice(t.Size())
			if t.Size()%2 == 0 && t.Dims() == 1 {
				d = mkSlice(2, t.Size()/2)
			}
			t.Reshape(d...)
			return i, [][]int{d}, true
		})
		un("Clone", func(w *c19world, t *tensor.Dense) (int, [][]int, bool) {
			if len(w.live) >= 4 {
				return -1, nil, false
			}
			w.add(t.Clone().(*tensor.Dense), -1)
			return len(w.live) - 1, nil, true
		})
		un("Materialize", func(w *c19world, t *tensor.Dense) (int, [][]int, bool) {
			if len(w.live) >= 4 || !t.IsMaterializable() {
				return -1, nil, false
			}
			w.add(t.Materialize().(*tensor.Dense), -1)
			return len(w.live) - 1, nil, true
		})
		un("SafeT", func(w *c19world, t *tensor.Dense) (int, [][]int, bool) {
			if len(w.live) >= 4 || t.Dims() < 2 {
				return -1, nil, false
			}
			ax := mkSlice(ref.Reversal(t.Dims())...)
			r, err := t.SafeT(ax...)
			if err == nil {
				w.add(r, -1)
				return len(w.live) - 1, [][]int{ax}, true
			}
			return -1, [][]int{ax}, true
		})
		// no-op transposes with caller-owned axes: nothing to do must also mean nothing retained
		un("SafeTIdentity", func(w *c19world, t *tensor.Dense) (int, [][]int, bool) {
			if len(w.live) >= 4 || t.Dims() < 1 {
				return -1, nil, false
			}
			id := make([]int, t.Dims())
			for k := range id {
				id[k] = k
			}
			ax := mkSlice(id...)
			r, err := t.SafeT(ax...)
			if err == nil && r != nil {
				w.add(r, -1)
				return len(w.live) - 1, [][]int{ax}, true
			}
			return -1, [][]int{ax}, true
		})
		un("TIdentity", func(w *c19world, t *tensor.Dense) (int, [][]int, bool) {
			if t.Dims() < 1 {
				return -1, nil, false
			}
			id := make([]int, t.Dims())
			for k := range id {
				id[k] = k
			}
			ax := mkSlice(id...)
			t.T(ax...)
			return i, [][]int{ax}, true
		})
		un("RollAxisSafeNoop", func(w *c19world, t *tensor.Dense) (int, [][]int, bool) {
			if len(w.live) >= 4 || t.Dims() < 1 {
				return -1, nil, false
			}
			r, err := t.RollAxis(0, 0, true)
			if err == nil && r != nil && r != t {
				w.add(r, -1)
				return len(w.live) - 1, nil, true
			}
			return -1, nil, true
		})
		un("NegUnsafe", func(w *c19world, t *tensor.Dense) (int, [][]int, bool) {
			tensor.Neg(t, tensor.UseUnsafe())
			return i, nil, true
		})
		un("AddScalarSafe", func(w *c19world, t *tensor.Dense) (int, [][]int, bool) {
			r, _ := tensor.Add(t, 1.0)
			if rd, ok := r.(*tensor.Dense); ok {
				tensor.ReturnTensor(rd) // a finished temporary is handed back to the pool
			}
			return -1, nil, true
		})
		un("SumAxes", func(w *c19world, t *tensor.Dense) (int, [][]int, bool) {
			if t.Dims() < 2 {
				return -1, nil, false
			}
			ax := mkSlice(t.Dims()-1, 0)
			r, err := t.Sum(ax...)
			if err == nil && r != nil {
				tensor.ReturnTensor(r)
			}
			return -1, [][]int{ax}, true
		})
		un("Sum0", func(w *c19world, t *tensor.Dense) (int, [][]int, bool) {
			ax := mkSlice(0)
			t.Sum(ax...)
			return -1, [][]int{ax}, true
		})
		un("Argmax", func(w *c19world, t *tensor.Dense) (int, [][]int, bool) {
			t.Argmax(t.Dims() - 1)
			t.Argmax(tensor.AllAxes)
			return -1, nil, true
		})
		un("Repeat", func(w *c19world, t *tensor.Dense) (int, [][]int, bool) {
			reps := mkSlice(2)
			tensor.Repeat(t, 0, reps...)
			return -1, [][]int{reps}, true
		})
		un("RepeatEach", func(w *c19world, t *tensor.Dense) (int, [][]int, bool) {
			if t.Dims() < 1 {
				return -1, nil, false
			}
			v := make([]int, t.Shape()[0])
			for k := range v {
				v[k] = k%2 + 1
			}
			reps := mkSlice(v...)
			tensor.Repeat(t, 0, reps...)
			return -1, [][]int{reps}, true
		})
		un("IterDrain", func(w *c19world, t *tensor.Dense) (int, [][]int, bool) {
			it := tensor.FlatIteratorFromDense(t)
			for _, e := it.Next(); e == nil; _, e = it.Next() {
			}
			return -1, nil, true
		})
		un("At", func(w *c19world, t *tensor.Dense) (int, [][]int, bool) {
			c := mkSlice(make([]int, t.Dims())...)
			t.At(c...)
			t.SetAt(float64(5), c...)
			return i, [][]int{c}, true
		})
		un("SliceArgs", func(w *c19world, t *tensor.Dense) (int, [][]int, bool) {
			// the slice list itself is caller-owned
			if t.Dims() < 1 {
				return -1, nil, false
			}
			// a prefix of a longer list the caller still needs: the entries behind the prefix are the caller's too
			whole := []tensor.Slice{tensor.S(0, 1), tensor.S(0, 1), tensor.S(0, 1, 1), tensor.S(0, 1)}
			keep := append([]tensor.Slice{}, whole...)
			sl := whole[:1]
			t.Slice(sl...)
			for k := range whole {
				if whole[k] != keep[k] {
					return -1, [][]int{{-999}}, true
				}
			}
			// SliceInto takes the same kind of list
			if t.Dims() >= 2 {
				into := tensor.New(tensor.Of(t.Dtype()), tensor.WithShape(1))
				t.SliceInto(into, whole[:1]...)
				for k := range whole {
					if whole[k] != keep[k] {
						return -1, [][]int{{-999}}, true
					}
				}
			}
			return -1, nil, true
		})
		un("ScalarOpsLen1", func(w *c19world, t *tensor.Dense) (int, [][]int, bool) {
			// the scalar forms of the comparisons, min/max and arithmetic between a ONE-element tensor and a scalar: they have
			// their own early-return paths around the pooled scalar header
			if i != 0 {
				return -1, nil, false
			}
			one := func() *tensor.Dense { return tensor.New(tensor.WithShape(1), tensor.WithBacking([]float64{3})) }
			for _, f := range []func(a, b interface{}, opts ...tensor.FuncOpt) (tensor.Tensor, error){tensor.Gt, tensor.Gte, tensor.Lt, tensor.Lte, tensor.ElEq, tensor.ElNe, tensor.MaxBetween, tensor.MinBetween, tensor.Add, tensor.Sub, tensor.Mul, tensor.Div, tensor.Pow, tensor.Mod} {
				f := f
				for _, g := range []func(){
					func() { f(one(), 2.0) },
					func() { f(2.0, one()) },
					func() { f(one(), 2.0, tensor.AsSameType()) },
					func() { f(2.0, one(), tensor.UseUnsafe()) },
					func() { f(one(), 2.0, tensor.WithReuse(one())) },
				} {
					call(func() error { g(); return nil }) // a panicking form (recorded under C07) must not hide the others
					// judged after every single call: the early-return paths of the one-element cases drop their header, which
					// would silently swallow a header that an earlier call put into the pool twice
					if _, dup := tensor.VerifHeaderPoolDup(); dup > 0 {
						return -1, [][]int{{-998}}, true
					}
				}
			}
			return -1, nil, true
		})
		un("DotRefused", func(w *c19world, t *tensor.Dense) (int, [][]int, bool) {
			// refusal paths of operations that carry options: an increment / reuse tensor of an element type the operation
			// does not take, operands that do not fit. Whatever was borrowed for the call goes back exactly once
			if i != 0 {
				return -1, nil, false
			}
			x := tensor.New(tensor.WithShape(2), tensor.WithBacking([]float64{1, 2}))
			m := tensor.New(tensor.WithShape(2, 2), tensor.WithBacking([]float64{1, 2, 3, 4}))
			bad := tensor.New(tensor.WithShape(2), tensor.WithBacking([]int{1, 2}))
			badM := tensor.New(tensor.WithShape(2, 2), tensor.WithBacking([]int{1, 2, 3, 4}))
			for _, g := range []func(){
				func() { tensor.Dot(x, x, tensor.WithIncr(bad)) },
				func() { tensor.Dot(x, x, tensor.WithReuse(bad)) },
				func() { tensor.Dot(m, x, tensor.WithIncr(bad)) },
				func() { tensor.MatMul(m, m, tensor.WithIncr(badM)) },
				func() { tensor.MatMul(m, m, tensor.WithReuse(badM)) },
				func() { tensor.MatVecMul(m, x, tensor.WithReuse(bad)) },
				func() { tensor.Add(m, x, tensor.WithReuse(m)) },
				func() { tensor.Add(m, m, tensor.WithIncr(badM)) },
				func() { tensor.Gt(m, m, tensor.WithReuse(badM)) },
				func() { tensor.Neg(m, tensor.WithReuse(badM)) },
				func() { tensor.Sum(m, 5) },
			} {
				call(func() error { g(); return nil })
				if dup, _ := tensor.VerifPoolDuplicates(); dup > 0 {
					return -1, [][]int{{-998}}, true
				}
			}
			return -1, nil, true
		})
		un("ShallowCloneReturn", func(w *c19world, t *tensor.Dense) (int, [][]int, bool) {
			// a shallow clone shares the DATA with its source by contract; handing the clone back to the pool must not
			// recycle anything else of the source (its pending transpose, its axes)
			y := t.ShallowClone()
			tensor.ReturnTensor(y)
			return -1, nil, true
		})
		un("ShallowCloneUT", func(w *c19world, t *tensor.Dense) (int, [][]int, bool) {
			y := t.ShallowClone()
			y.UT()
			return -1, nil, true
		})
		un("Gob", func(w *c19world, t *tensor.Dense) (int, [][]int, bool) { t.GobEncode(); return -1, nil, true })
		un("Return", func(w *c19world, t *tensor.Dense) (int, [][]int, bool) {
			for _, o := range w.live {
				if o.parent == i {
					return -1, nil, false
				}
			}
			// a view is a *Dense that Slice borrowed from the pool: handing it back while its parent lives is ordinary use
			tensor.ReturnTensor(t)
			w.live = append(w.live[:i], w.live[i+1:]...)
			for _, o := range w.live {
				if o.parent > i {
					o.parent--
				}
			}
			return -2, nil, true
		})
		for j := 0; j < nlive; j++ {
			j := j
			bin := func(name string, f func(w *c19world, a, b *tensor.Dense) (dest int, slices [][]int, ok bool)) {
				evs = append(evs, c19ev{fmt.Sprintf("%s(%d,%d)", name, i, j), func(w *c19world) (int, [][]int, bool) {
					if i >= len(w.live) || j >= len(w.live) {
						return -1, nil, false
					}
					return f(w, w.live[i].t, w.live[j].t)
				}})
			}
			bin("AddSafe", func(w *c19world, a, b *tensor.Dense) (int, [][]int, bool) {
				if !a.Shape().Eq(b.Shape()) {
					return -1, nil, false
				}
				r, err := tensor.Add(a, b)
				if err == nil {
					tensor.ReturnTensor(r)
				}
				return -1, nil, true
			})
			if i != j {
				bin("AddUnsafe", func(w *c19world, a, b *tensor.Dense) (int, [][]int, bool) {
					if !a.Shape().Eq(b.Shape()) {
						return -1, nil, false
					}
					tensor.Add(a, b, tensor.UseUnsafe())
					return i, nil, true
				})
				bin("AddReuse", func(w *c19world, a, b *tensor.Dense) (int, [][]int, bool) {
					if !a.Shape().Eq(b.Shape()) {
						return -1, nil, false
					}
					tensor.Add(a, a, tensor.WithReuse(b))
					return j, nil, true
				})
				bin("CopyInto", func(w *c19world, a, b *tensor.Dense) (int, [][]int, bool) {
					if a.Size() != b.Size() {
						return -1, nil, false
					}
					tensor.Copy(b, a)
					return j, nil, true
				})
			}
			// a scalar (or one-element) operand given as a tensor is an operand like any other
			bin("MaxBetween", func(w *c19world, a, b *tensor.Dense) (int, [][]int, bool) {
				if i == j || !(a.Shape().Eq(b.Shape()) || a.IsScalar() || b.IsScalar()) {
					return -1, nil, false
				}
				r, err := tensor.MaxBetween(a, b)
				if rd, ok := r.(*tensor.Dense); ok && err == nil && rd != a && rd != b {
					tensor.ReturnTensor(rd)
				}
				return -1, nil, true
			})
			if i != j {
				// destinations in whatever state they are (lazily transposed, views): the destination may change, nothing else
				bin("ApplyReuse", func(w *c19world, a, b *tensor.Dense) (int, [][]int, bool) {
					if a.Size() != b.Size() {
						return -1, nil, false
					}
					a.Apply(func(x float64) float64 { return x + 1 }, tensor.WithReuse(b))
					return j, nil, true
				})
				bin("MatMulReuse", func(w *c19world, a, b *tensor.Dense) (int, [][]int, bool) {
					if a.Dims() != 2 || b.Size() != a.Shape()[0]*a.Shape()[0] {
						return -1, nil, false
					}
					ones := make([]float64, a.Size())
					for k := range ones {
						ones[k] = 1
					}
					o := tensor.New(tensor.WithShape(a.Shape()[1], a.Shape()[0]), tensor.WithBacking(ones))
					a.MatMul(o, tensor.WithReuse(b))
					return j, nil, true
				})
			}
			bin("MatMul", func(w *c19world, a, b *tensor.Dense) (int, [][]int, bool) {
				if a.Dims() != 2 || b.Dims() != 2 || a.Shape()[1] != b.Shape()[0] {
					return -1, nil, false
				}
				a.MatMul(b)
				return -1, nil, true
			})
			bin("Dot", func(w *c19world, a, b *tensor.Dense) (int, [][]int, bool) {
				tensor.Dot(a, b)
				return -1, nil, true
			})
			bin("TensorMul", func(w *c19world, a, b *tensor.Dense) (int, [][]int, bool) {
				if a.Dims() < 1 || b.Dims() < 1 || a.Shape()[a.Dims()-1] != b.Shape()[0] {
					return -1, nil, false
				}
				ax, bx := mkSlice(-1), mkSlice(0)
				a.TensorMul(b, ax, bx)
				return -1, [][]int{ax, bx}, true
			})
			bin("Concat", func(w *c19world, a, b *tensor.Dense) (int, [][]int, bool) {
				a.Concat(0, b)
				return -1, nil, true
			})
			bin("Stack", func(w *c19world, a, b *tensor.Dense) (int, [][]int, bool) {
				a.Stack(0, b)
				return -1, nil, true
			})
			bin("MultIter", func(w *c19world, a, b *tensor.Dense) (int, [][]int, bool) {
				if !a.Shape().Eq(b.Shape()) {
					return -1, nil, false
				}
				it := tensor.MultIteratorFromDense(a, b)
				for _, e := it.Next(); e == nil; _, e = it.Next() {
				}
				return -1, nil, true
			})
		}
	}
	return evs
}

// c19MaskEvents: the alphabet of the mask universe.
func c19MaskEvents(nlive int) []c19ev {
	var evs []c19ev
	mk := func(name string, f func(w *c19world) *tensor.Dense) {
		evs = append(evs, c19ev{name, func(w *c19world) (int, [][]int, bool) {
			if len(w.live) >= 3 {
				return -1, nil, false
			}
			w.nextID++
			w.add(f(w), -1)
			return len(w.live) - 1, nil, true
		}})
	}
	vals := func(w *c19world, n int) []float64 {
		b := make([]float64, n)
		for i := range b {
			b[i] = float64(100*(w.nextID+1) + i%3)
		}
		return b
	}
	mk("NewMasked(2,3)", func(w *c19world) *tensor.Dense {
		return tensor.New(tensor.WithShape(2, 3), tensor.WithBacking(vals(w, 6), []bool{true, false, true, false, true, true}))
	})
	mk("NewPlain(2,2)", func(w *c19world) *tensor.Dense {
		return tensor.New(tensor.WithShape(2, 2), tensor.WithBacking(vals(w, 4)))
	})
	mk("NewPlain(3)", func(w *c19world) *tensor.Dense {
		return tensor.New(tensor.WithShape(3), tensor.WithBacking(vals(w, 3)))
	})
	mk("NewFortranMasked(2,2)", func(w *c19world) *tensor.Dense {
		return tensor.New(tensor.WithShape(2, 2), tensor.AsFortran(vals(w, 4), []bool{true, false, false, true}))
	})
	evs = append(evs, c19ev{"UsePool", func(w *c19world) (int, [][]int, bool) { tensor.UsePool(); return -1, nil, true }},
		c19ev{"DontUsePool", func(w *c19world) (int, [][]int, bool) { tensor.DontUsePool(); return -1, nil, true }})
	for i := 0; i < nlive; i++ {
		i := i
		un := func(name string, f func(w *c19world, t *tensor.Dense) (dest int, slices [][]int, ok bool)) {
			evs = append(evs, c19ev{fmt.Sprintf("%s(%d)", name, i), func(w *c19world) (int, [][]int, bool) {
				if i >= len(w.live) {
					return -1, nil, false
				}
				return f(w, w.live[i].t)
			}})
		}
		hasViews := func(w *c19world) bool {
			for _, o := range w.live {
				if o.parent == i {
					return true
				}
			}
			return false
		}
		un("SliceRows", func(w *c19world, t *tensor.Dense) (int, [][]int, bool) {
			if len(w.live) >= 4 || t.Dims() < 2 || t.Shape()[0] < 2 {
				return -1, nil, false
			}
			v, err := t.Slice(tensor.S(1, t.Shape()[0]))
			if err != nil {
				return -1, nil, true
			}
			w.add(v.(*tensor.Dense), i)
			return len(w.live) - 1, nil, true
		})
		// a view is a *Dense borrowed from the pool by Slice: handing it back is ordinary use; a root is handed back only
		// when no view of it is alive
		un("Return", func(w *c19world, t *tensor.Dense) (int, [][]int, bool) {
			if hasViews(w) {
				return -1, nil, false
			}
			tensor.ReturnTensor(t)
			w.live = append(w.live[:i], w.live[i+1:]...)
			for _, o := range w.live {
				if o.parent > i {
					o.parent--
				}
			}
			return -2, nil, true
		})
		// masking predicates rewrite the receiver's mask; for a view that is the parent's mask window, so they are only
		// offered on tensors that share their mask with no other live tensor
		pred := func(name string, f func(t *tensor.Dense) error) {
			un(name, func(w *c19world, t *tensor.Dense) (int, [][]int, bool) {
				if hasViews(w) || w.live[i].parent >= 0 {
					return -1, nil, false
				}
				f(t)
				return i, nil, true
			})
		}
		pred("MaskedEqual", func(t *tensor.Dense) error { return t.MaskedEqual(float64(101)) })
		pred("MaskedLess", func(t *tensor.Dense) error { return t.MaskedLess(float64(1000)) })
		pred("ResetMask", func(t *tensor.Dense) error { return t.ResetMask(false) })
		un("Clone", func(w *c19world, t *tensor.Dense) (int, [][]int, bool) {
			if len(w.live) >= 4 {
				return -1, nil, false
			}
			w.add(t.Clone().(*tensor.Dense), -1)
			return len(w.live) - 1, nil, true
		})
		un("Materialize", func(w *c19world, t *tensor.Dense) (int, [][]int, bool) {
			if len(w.live) >= 4 || !t.IsMaterializable() {
				return -1, nil, false
			}
			w.add(t.Materialize().(*tensor.Dense), -1)
			return len(w.live) - 1, nil, true
		})
		un("AddScalarSafe", func(w *c19world, t *tensor.Dense) (int, [][]int, bool) {
			r, _ := tensor.Add(t, 1.0)
			if rd, ok := r.(*tensor.Dense); ok {
				tensor.ReturnTensor(rd)
			}
			return -1, nil, true
		})
		un("ConcatSelf", func(w *c19world, t *tensor.Dense) (int, [][]int, bool) {
			// operands (here: the same tensor twice, and every other live tensor of the same shape) are only read
			others := []tensor.Tensor{t}
			for k, o := range w.live {
				if k != i && o.t.Shape().Eq(t.Shape()) && o.t.Dims() == t.Dims() {
					others = append(others, o.t)
				}
			}
			r, err := tensor.Concat(0, t, others...)
			if rd, ok := r.(*tensor.Dense); ok && err == nil {
				tensor.ReturnTensor(rd)
			}
			return -1, nil, true
		})
		un("MaskedCount", func(w *c19world, t *tensor.Dense) (int, [][]int, bool) {
			t.MaskedCount()
			t.FlatNotMaskedContiguous()
			return -1, nil, true
		})
		un("DotVec", func(w *c19world, t *tensor.Dense) (int, [][]int, bool) {
			// vector . matrix works on a private shallow clone of the matrix (which shares data AND mask) and hands the
			// clone back to the pool: the operand keeps its mask
			if t.Dims() != 2 || t.Dtype() != tensor.Float64 {
				return -1, nil, false
			}
			ones := make([]float64, t.Shape()[0])
			for k := range ones {
				ones[k] = 1
			}
			tensor.Dot(tensor.New(tensor.WithShape(len(ones)), tensor.WithBacking(ones)), t)
			return -1, nil, true
		})
		un("ShallowCloneReturn", func(w *c19world, t *tensor.Dense) (int, [][]int, bool) {
			tensor.ReturnTensor(t.ShallowClone())
			return -1, nil, true
		})
	}
	return evs
}

func gcAndFinalizers() {
	// run the collector until every finalizer that can run has run: a sentinel allocated now is finalized after the
	// objects that were already unreachable, and the pools must then be quiescent (same hash for three further rounds)
	type sentinel struct{ x [8]int }
	done := make(chan struct{})
	func() {
		s := &sentinel{}
		runtime.SetFinalizer(s, func(*sentinel) { close(done) })
	}()
	sentinelDone := false
	stable := 0
	last := tensor.VerifPoolHash()
	for k := 0; k < 200 && !(sentinelDone && stable >= 3); k++ {
		runtime.GC()
		if !sentinelDone {
			select {
			case <-done:
				sentinelDone = true
			case <-time.After(5 * time.Millisecond):
			}
		} else {
			runtime.Gosched()
			time.Sleep(200 * time.Microsecond)
		}
		if h := tensor.VerifPoolHash(); h == last {
			stable++
		} else {
			stable, last = 0, h
		}
	}
}

// metaPtrs lists the base pointers of every metadata slice reachable from a live tensor.
func metaPtrs(t *tensor.Dense) map[uintptr]string {
	m := tensor.VerifMetaOf(t)
	out := map[uintptr]string{}
	for name, p := range map[string]uintptr{"shape": m.ShapePtr, "strides": m.StridesPtr, "old.shape": m.OldShapePtr, "old.strides": m.OldStridesPtr, "transposeWith": m.TWPtr} {
		if p != 0 {
			out[p] = name
		}
	}
	return out
}

func intsBase(s []int) uintptr {
	if cap(s) == 0 {
		return 0
	}
	return atlas.RootPtr(s[:1])
}

func runC19(r *core.Run) {
	quick := isQuick(r)
	depth := 4
	maxStates := 20000
	if !quick {
		depth = 5
		maxStates = 400000
	}
	r.SetBound("history_depth", depth)
	r.SetBound("max_expanded_states", maxStates)
	r.SetBound("pool_environments", "recycle-most-recent (deviation 0) and never-recycle")
	debug.SetGCPercent(-1)
	defer debug.SetGCPercent(400)
	evs := c19Events(3)
	r.SetBound("event_instances", len(evs))
	c19Explore(r, "", evs, depth, maxStates)
	// second universe: masked tensors, their views, recycling of views and roots, masking predicates on fresh tensors
	// (a small alphabet, so one level deeper)
	mevs := c19MaskEvents(3)
	r.SetBound("mask_universe", fmt.Sprintf("%d event instances (masked / plain / column-major-converted constructors, row views, ReturnTensor of views and roots, masking predicates, Clone, Materialize), depth %d", len(mevs), depth+1))
	c19Explore(r, "mask|", mevs, depth+1, maxStates)
}

// c19Explore: breadth-first search over event histories (see the rule of C19); label distinguishes universes.
func c19Explore(r *core.Run, label string, evs []c19ev, depth, maxStates int) {
	byName := map[string]c19ev{}
	for _, e := range evs {
		byName[e.name] = e
	}
	for _, env := range []string{"recycle", "fresh"} {
		env := env
		setEnv := func() {
			if env == "fresh" {
				tensor.VerifSetHooks(nil, func(pool uintptr, n int) int { return 1 }, nil, nil, nil)
			} else {
				tensor.VerifSetHooks(nil, nil, nil, nil, nil)
			}
		}
		defer tensor.VerifSetHooks(nil, nil, nil, nil, nil)
		// replay builds the world reached by a history; returns nil if an event is no longer applicable
		nreplays := 0
		replay := func(hist []string) *c19world {
			if nreplays++; nreplays%2048 == 0 {
				runtime.GC() // between replays nothing of the library is live (see C18)
			}
			tensor.VerifResetPools()
			setEnv()
			w := &c19world{}
			for _, n := range hist {
				func() {
					defer func() { recover() }()
					byName[n].apply(w)
				}()
			}
			for _, l := range w.live {
				l.fp = atlas.Fingerprint(l.t)
			}
			return w
		}
		key := func(w *c19world) string {
			var sb strings.Builder
			for _, l := range w.live {
				fmt.Fprintf(&sb, "[%s|%x|p%d]", atlas.MetaString(l.t), core.H64(string(tensor.VerifRaw(l.t))), l.parent)
			}
			for i, fl := range tensor.VerifIntsPoolItems() {
				fmt.Fprintf(&sb, "%d:%d,", i, len(fl))
			}
			fmt.Fprintf(&sb, "d%d u%v", tensor.VerifDensePoolLen(), tensor.VerifUsePool())
			return sb.String()
		}
		type qe struct{ hist []string }
		seen := map[string]bool{}
		frontier := []qe{{nil}}
		expanded := 0
		for lvl := 0; lvl < depth && len(frontier) > 0; lvl++ {
			var next []qe
			for _, e := range frontier {
				if r.Expired() {
					r.Note(fmt.Sprintf("C19 BFS (%s): deadline reached at level %d after expanding %d states; histories of length <= %d are covered completely by this shard", env, lvl, expanded, lvl))
					return
				}
				if expanded >= maxStates {
					r.CapHit = true
					r.Note(fmt.Sprintf("C19 BFS (%s%s): expanded-state cap %d hit at level %d", label, env, maxStates, lvl))
					break
				}
				mine := lvl > 0 || r.Shard == 0 // the root is judged by shard 0; level-1 subtrees are partitioned over the shards
				expanded++
				id := fmt.Sprintf("C19|%s%s|%s", label, env, strings.Join(e.hist, "."))
				var succ []string
				body := func() *core.Fail {
					succ = succ[:0]
					var fails []string
					kinds := map[string]bool{}
					for _, ev := range evs {
						w := replay(e.hist)
						before := make([]string, len(w.live))
						ptrs := make([]*tensor.Dense, len(w.live))
						for i, l := range w.live {
							before[i] = l.fp
							ptrs[i] = l.t
						}
						var dest int
						var slices [][]int
						var ok bool
						var snaps [][]int
						pan := call(func() error {
							dest, slices, ok = ev.apply(w)
							return nil
						})
						if pan.Class == "panic" {
							ok = true // a panic is a refusal: the invariants must hold all the same
							dest = -1
						}
						if !ok {
							continue
						}
						r.Op(1)
						evKind := ev.name
						if i := strings.IndexAny(evKind, "(["); i > 0 {
							evKind = evKind[:i]
						}
						r.Outcome(evKind + ":" + pan.Class)
						add := func(kind, format string, a ...interface{}) {
							kinds[kind] = true
							if len(fails) < 8 {
								fails = append(fails, ev.name+": "+kind+": "+fmt.Sprintf(format, a...))
							}
						}
						_ = snaps
						// (2) caller slices unchanged over full capacity
						for _, s := range slices {
							if len(s) == 1 && s[0] == -999 {
								add("caller-slice-mutated", "the caller's slice list was modified")
								continue
							}
							if len(s) == 1 && s[0] == -998 {
								add("double-return", "an object (a scalar header, an option record, ...) is in one of the library's pools twice: two later borrowers would share it")
								continue
							}
							full := s[:cap(s)]
							for k := len(s); k < len(full); k++ {
								if full[k] != 77 {
									add("caller-slice-mutated", "spare capacity of the caller's slice %v was written (%v)", s, full)
									break
								}
							}
						}
						// (1) every other live tensor unchanged
						for i, t := range ptrs {
							if dest == -2 && i >= len(ptrs) {
								break
							}
							if i == dest {
								continue
							}
							// tensors of the destination's storage family (its parent, its views, its siblings) legitimately see
							// the written elements: for them only the metadata must be unchanged
							rootOf := func(t *tensor.Dense) *tensor.Dense {
								for guard := 0; guard < 8; guard++ {
									found := false
									for _, l := range w.live {
										if l.t == t && l.parent >= 0 && l.parent < len(w.live) {
											t = w.live[l.parent].t
											found = true
											break
										}
									}
									if !found {
										break
									}
								}
								return t
							}
							stillLive := false
							for _, l := range w.live {
								if l.t == t {
									stillLive = true
								}
							}
							if !stillLive {
								continue
							}
							related := dest >= 0 && dest < len(w.live) && rootOf(w.live[dest].t) == rootOf(t)
							if related {
								if m := atlas.MetaString(t); !strings.HasPrefix(before[i], m) {
									add("live-tensor-corrupted", "metadata of live tensor #%d (same storage family as the destination) changed: now %s", i, m)
								}
								continue
							}
							if fp := atlas.Fingerprint(t); fp != before[i] {
								add("live-tensor-corrupted", "live tensor #%d (not the destination) changed: now %s", i, atlas.MetaString(t))
							}
						}
						// (3) not retained: scribble over the caller's slices
						fps := make([]string, len(w.live))
						for i, l := range w.live {
							fps[i] = atlas.Fingerprint(l.t)
						}
						for _, s := range slices {
							for k := range s {
								s[k] = 9
							}
						}
						for i, l := range w.live {
							if atlas.Fingerprint(l.t) != fps[i] {
								add("caller-slice-retained", "overwriting the caller's argument slice afterwards changed live tensor #%d: %s", i, atlas.MetaString(l.t))
							}
						}
						// (4) pool discipline
						free := tensor.VerifIntsPoolItems()
						seenPtr := map[uintptr]bool{}
						for cls, fl := range free {
							for _, s := range fl {
								bp := intsBase(s)
								if bp == 0 {
									continue
								}
								if seenPtr[bp] {
									add("double-return", "a slice of capacity %d is in the ints free list twice", cls)
								}
								seenPtr[bp] = true
							}
						}
						for i, l := range w.live {
							for p, what := range metaPtrs(l.t) {
								if seenPtr[p] {
									// confirm concretely: borrow and write
									fpv := atlas.Fingerprint(l.t)
									m := tensor.VerifMetaOf(l.t)
									size := map[string]int{"shape": m.ShapeCap, "strides": m.StridesCap, "old.shape": m.OldShapeCap, "old.strides": m.OldStridesCap, "transposeWith": m.TWCap}[what]
									b := tensor.BorrowInts(size)
									for k := range b {
										b[k] = 7
									}
									if atlas.Fingerprint(l.t) != fpv {
										add("pool-alias", "the %s slice of live tensor #%d is in the ints free list: the next BorrowInts(%d) hands it out and overwrites it (%s)", what, i, size, atlas.MetaString(l.t))
									}
								}
							}
						}
						for _, s := range slices {
							if bp := intsBase(s); bp != 0 && seenPtr[bp] {
								add("pool-alias", "a caller-owned slice is in the ints free list")
							}
						}
						if dup, what := tensor.VerifPoolDuplicates(); dup > 0 {
							add("double-return", "an object of type %s is in one of the library's pools twice: two later borrowers would share it", what)
						}
						if _, dup := tensor.VerifHeaderPoolDup(); dup > 0 {
							add("double-return", "a scalar header is in the header pool twice: two later scalar operands would share it")
						}
						if len(kinds) > 0 {
							continue // do not expand states reached through a violating event
						}
						// successor
						w2 := replay(append(append([]string{}, e.hist...), ev.name))
						k := key(w2)
						r.State(label + env + k)
						if !seen[k] {
							seen[k] = true
							succ = append(succ, ev.name)
						}
					}
					if len(fails) == 0 {
						return nil
					}
					var ks []string
					for k := range kinds {
						ks = append(ks, k)
					}
					sortStrings(ks)
					var sig []string
					for _, f := range fails {
						sig = append(sig, strings.SplitN(f, ":", 3)[0]+strings.SplitN(f, ":", 3)[1])
					}
					return core.F(strings.Join(ks, "+"), fmt.Sprintf("%x", core.H64(strings.Join(sig, ";"))), "%s", strings.Join(fails, " ; "))
				}
				if mine {
					r.CaseAlways(id, len(e.hist) >= 1, body)
				} else {
					// other shards own the verdict of this state; successors are still needed for the BFS
					protectBody(body)
				}
				for si, n := range succ {
					if lvl == 0 && si%r.NShards != r.Shard {
						continue
					}
					next = append(next, qe{append(append([]string{}, e.hist...), n)})
				}
			}
			frontier = next
		}
	}
}

func protectBody(body func() *core.Fail) {
	defer func() { recover() }()
	body()
}
