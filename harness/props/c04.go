package props

import (
	"fmt"
	"reflect"
	"strings"

	"gonum.org/v1/gonum/mat"
	"gorgonia.org/tensor"
	"gorgonia.org/tensor/native"
	"verifharness/atlas"
	"verifharness/core"
	"verifharness/ref"
)

func init() {
	register(&Def{ID: "C04", Engine: "E2+E1", Run: runC04,
		Rule: "writes: element type x shape x view state (atlas layouts, view-graph states to depth 2, one-element views with a wide storage window) x whole-tensor write operation (Memset, Zero, SetAt sweep, Copy, CopyTo, physical transposition, unsafe unary operations, every in-place arithmetic operation with a tensor or with a scalar on either side, reuse and increment destinations), on an identity-coded root; the whole root is diffed against (model values inside the view's image, untouched outside). " +
			"copies: element type x shape x source layout x copy operation, and - from NON-INITIAL states - every slice/transpose view state of the view graph (depth 2) x {Clone, Materialize, SafeT, Copy, CopyTo}; logical equality by At sweep, storage disjointness by write probes in both directions. one case = (dtype, shape, state, operation); non-trivial = the view's image is a proper subset of the root (writes) / the source has >1 element (copies)",
		Assume: []string{"view states and their cell maps are those of the C02/C03 model; states whose access pattern differs from the model (C02/C03 findings) are skipped and counted",
			"a refused write is accepted when nothing outside the view changed (whether the operation must succeed is C06/C07's question)"}})
}

type c04write struct {
	name    string
	numeric bool
}

var c04Writes = []c04write{{"Memset", false}, {"Zero", false}, {"SetAtSweep", false}, {"Copy", false}, {"CopyTwin", false}, {"AddUnsafeTwin", true}, {"CopyTo", false}, {"TransposeInPlace", false},
	{"NegUnsafe", true}, {"SquareUnsafe", true}, {"AddUnsafeTT", true}, {"AddUnsafeTS", true}, {"AddReuse", true}, {"AddIncr", true}, {"MulScalarReuse", true},
	// every other in-place arithmetic operation with a scalar on either side (each has its own engine method)
	{"UnsafeTS:Sub", true}, {"UnsafeTS:Mul", true}, {"UnsafeTS:Div", true}, {"UnsafeTS:Pow", true}, {"UnsafeTS:Mod", true},
	{"UnsafeST:Sub", true}, {"UnsafeST:Mul", true}, {"UnsafeST:Div", true}, {"UnsafeST:Pow", true}, {"UnsafeST:Mod", true}, {"UnsafeST:Add", true}}

// c04skip marks a view element whose value is not judged by C04 (the operation is refused or undefined there: C06's business)
type c04skip struct{}

// mkContig builds a fresh contiguous tensor with the given logical values.
func mkContig(d ref.DT, shape []int, vals []interface{}) *tensor.Dense {
	back := d.MakeSlice(len(vals))
	for i, v := range vals {
		ref.SliceSet(back, i, v)
	}
	if len(shape) == 0 {
		return tensor.New(tensor.WithShape(), tensor.WithBacking(back))
	}
	return tensor.New(tensor.WithShape(shape...), tensor.WithBacking(back))
}

func arithOK(op string, a, b interface{}) interface{} {
	r := ref.Arith(op, a, b)
	return r.V
}

// c04DoWrite performs the write through view b and returns the expected logical values of the view afterwards
// (nil = the operation is not applicable) and the call outcome.
func c04DoWrite(b *atlas.Built, w string) (want []interface{}, o Outcome, permuted []int) {
	d := b.DT
	shape := b.View.Shape
	n := len(b.View.Cell)
	old := make([]interface{}, n)
	for i, c := range b.View.Cell {
		old[i] = ref.SliceGet(b.Root, c)
	}
	want = make([]interface{}, n)
	other := make([]interface{}, n)
	for i := range other {
		other[i] = d.Code(i%5 + 1)
	}
	switch w {
	case "Memset":
		x := d.Code(77)
		for i := range want {
			want[i] = x
		}
		o = call(func() error { return b.T.Memset(x) })
	case "Zero":
		for i := range want {
			want[i] = d.Zero()
		}
		o = call(func() error { b.T.Zero(); return nil })
	case "SetAtSweep":
		i := 0
		o = call(func() (err error) {
			ref.ForCoords(shape, func(c []int) {
				want[i] = d.Code(1000 + i)
				if e := b.T.SetAt(want[i], c...); e != nil && err == nil {
					err = e
				}
				i++
			})
			return
		})
	case "Copy":
		src := mkContig(d, shape, other)
		copy(want, other)
		o = call(func() error { return tensor.Copy(b.T, src) })
	case "CopyTwin", "AddUnsafeTwin":
		// the source is the SAME kind of view (same slicing / transposition) over a second root: equal shapes, strides and
		// window lengths on both sides
		if b.Twin == nil {
			return nil, o, nil
		}
		tw := b.Twin()
		if tw == nil || !ref.EqInts(tw.View.Shape, shape) {
			return nil, o, nil
		}
		for i, c := range tw.View.Cell {
			ref.SliceSet(tw.Root, c, other[i])
		}
		if w == "CopyTwin" {
			copy(want, other)
			o = call(func() error { return tensor.Copy(b.T, tw.T) })
		} else {
			for i := range want {
				want[i] = arithOK("Add", old[i], other[i])
			}
			o = call(func() error { _, e := tensor.Add(b.T, tw.T, tensor.UseUnsafe()); return e })
		}
	case "CopyTo":
		src := mkContig(d, shape, other)
		copy(want, other)
		o = call(func() error { return src.CopyTo(b.T) })
	case "TransposeInPlace":
		if len(shape) < 2 {
			return nil, o, nil
		}
		p := ref.Reversal(len(shape))
		arr := ref.Arr{DT: d, Shape: shape, El: old}.Permute(p)
		want = arr.El
		permuted = arr.Shape
		o = call(func() error {
			if err := b.T.T(); err != nil {
				return err
			}
			return b.T.Transpose()
		})
	case "NegUnsafe":
		for i := range want {
			want[i] = ref.Unary("Neg", old[i]).V
		}
		o = call(func() error { _, e := tensor.Neg(b.T, tensor.UseUnsafe()); return e })
	case "SquareUnsafe":
		for i := range want {
			want[i] = ref.Unary("Square", old[i]).V
		}
		o = call(func() error { _, e := tensor.Square(b.T, tensor.UseUnsafe()); return e })
	case "AddUnsafeTT":
		src := mkContig(d, shape, other)
		for i := range want {
			want[i] = arithOK("Add", old[i], other[i])
		}
		o = call(func() error { _, e := tensor.Add(b.T, src, tensor.UseUnsafe()); return e })
	case "AddUnsafeTS":
		for i := range want {
			want[i] = arithOK("Add", old[i], d.Code(3))
		}
		o = call(func() error { _, e := tensor.Add(b.T, d.Code(3), tensor.UseUnsafe()); return e })
	case "AddReuse":
		x := mkContig(d, shape, other)
		y := mkContig(d, shape, other)
		for i := range want {
			want[i] = arithOK("Add", other[i], other[i])
		}
		o = call(func() error { _, e := tensor.Add(x, y, tensor.WithReuse(b.T)); return e })
	case "AddIncr":
		x := mkContig(d, shape, other)
		y := mkContig(d, shape, other)
		for i := range want {
			want[i] = arithOK("Add", old[i], arithOK("Add", other[i], other[i]))
		}
		o = call(func() error { _, e := tensor.Add(x, y, tensor.WithIncr(b.T)); return e })
	case "MulScalarReuse":
		x := mkContig(d, shape, other)
		for i := range want {
			want[i] = arithOK("Mul", other[i], d.Code(2))
		}
		o = call(func() error { _, e := tensor.Mul(x, d.Code(2), tensor.WithReuse(b.T)); return e })
	default:
		if strings.HasPrefix(w, "UnsafeTS:") || strings.HasPrefix(w, "UnsafeST:") {
			op := w[len("UnsafeTS:"):]
			sc := d.Code(3)
			left := strings.HasPrefix(w, "UnsafeST:")
			for i := range want {
				var res ref.Res
				if left {
					res = ref.Arith(op, sc, old[i])
				} else {
					res = ref.Arith(op, old[i], sc)
				}
				if res.Refuse || res.Skip || res.Approx {
					want[i] = c04skip{}
				} else {
					want[i] = res.V
				}
			}
			fn := map[string]func(a, b interface{}, opts ...tensor.FuncOpt) (tensor.Tensor, error){"Add": tensor.Add, "Sub": tensor.Sub, "Mul": tensor.Mul, "Div": tensor.Div, "Pow": tensor.Pow, "Mod": tensor.Mod}[op]
			o = call(func() error {
				var e error
				if left {
					_, e = fn(sc, b.T, tensor.UseUnsafe())
				} else {
					_, e = fn(b.T, sc, tensor.UseUnsafe())
				}
				return e
			})
			return want, o, permuted
		}
		panic(w)
	}
	return want, o, permuted
}

func c04CheckWrite(r *core.Run, b *atlas.Built, w string) *core.Fail {
	d := b.DT
	snap := b.Snapshot()
	image := map[int]bool{}
	for _, c := range b.View.Cell {
		image[c] = true
	}
	want, o, _ := c04DoWrite(b, w)
	if want == nil {
		return nil
	}
	r.Op(1)
	r.Outcome(w + ":" + o.Class)
	changed := b.ChangedCells(snap)
	var outside []int
	for _, c := range changed {
		if !image[c] {
			outside = append(outside, c)
		}
	}
	if len(outside) > 0 {
		tag := ""
		if w == "TransposeInPlace" {
			tag = "[KF:view-physical-transpose]"
		}
		return core.F("frame-violated"+tag, fmt.Sprintf("out%d", len(outside)), "%s through a view of shape %v (image %d of %d root cells) changed root cells OUTSIDE the view: %v (outcome %s)", w, b.View.Shape, len(image), ref.SliceLen(b.Root), clip(outside), o.Class)
	}
	if o.Class != "ok" {
		return nil // refused, nothing outside the view touched
	}
	// values inside the image
	var cells []int
	if w == "TransposeInPlace" {
		// logical content must be the transposed array; read back through the tensor
		got, err := atlas.Logical(b.T)
		if err != nil {
			return core.F("wrong-value", "unreadable", "after physical transpose of a view: %v", err)
		}
		for i := range want {
			if i >= len(got) || !ref.Same(got[i], want[i]) {
				tag := ""
				if sh := tensor.Shape(b.View.Shape); (sh.IsVector() || len(sh) == 1) && b.T.IsView() {
					tag = "[KF:strided-vector-view]"
				}
				if b.T.DataOrder().IsColMajor() || strings.HasPrefix(b.Layout, "F") {
					tag = "[KF:colmajor-data-movement]"
				}
				return core.F("wrong-value"+tag, "tr", "after physical transpose of the view: expected %s got %s", ref.FmtEls(want), ref.FmtEls(got))
			}
		}
		return nil
	}
	if w == "CopyTo" {
		return nil // CopyTo is documented as a raw storage copy that ignores the destination's metadata: only the frame is judged
	}
	cells = b.View.Cell
	for i, c := range cells {
		got := ref.SliceGet(b.Root, c)
		if _, skip := want[i].(c04skip); skip {
			continue
		}
		if !ref.Same(got, want[i]) {
			return core.F("wrong-value", fmt.Sprintf("el%d", i), "%s through view of shape %v: root cell %d (view element %d) is %s, expected %s", w, b.View.Shape, c, i, ref.Fmt(got), ref.Fmt(want[i]))
		}
	}
	_ = d
	return nil
}

func clip(s []int) []int {
	if len(s) > 12 {
		return s[:12]
	}
	return s
}

func runC04(r *core.Run) {
	quick := isQuick(r)
	shapes := ref.DedupShapes(append(ref.ShapesUpTo(1, 3, 3), [][]int{{2, 2, 2, 2}, {2, 1, 2, 3}, {1, 3, 1, 2}, {4}, {5}, {4, 5}, {1, 5}, {5, 1}, {4, 2}}...))
	if !quick {
		shapes = ref.DedupShapes(append(ref.ShapesUpTo(1, 3, 4), append(ref.Shapes(4, 2), [][]int{{3, 3, 3, 3}, {2, 1, 2, 3}, {1, 3, 1, 2}, {5}, {4, 5}, {1, 5}, {5, 1}}...)...))
	}
	r.SetBound("shapes", fmt.Sprintf("%d shapes: rank1-3 dims<=%d + rank4 + vectors/matrices to 5", len(shapes), map[bool]int{true: 3, false: 4}[quick]))
	layouts := []string{"C", "T", "S", "SS", "ST", "TS"}
	r.SetBound("layouts", "row-major rooted states only (C,T,S,SS,ST,TS,M,Cl + view graph); column-major roots and their views are exercised by C16 with the same generator")
	vgDT := map[string]bool{"float64": true, "uint8": true}
	// ---------- writes
	for _, d := range ref.ALL18 {
		for _, shape := range shapes {
			n := ref.Prod(shape)
			type stt struct {
				id string
				mk func() *atlas.Built
			}
			var states []stt
			for _, lay := range layouts {
				lay := lay
				states = append(states, stt{lay, func() *atlas.Built {
					vals := make([]interface{}, n)
					for i := range vals {
						vals[i] = d.Code(i)
					}
					b, err := atlas.Build(d, shape, vals, lay)
					if err != nil {
						return nil
					}
					return b
				}})
			}
			if vgDT[d.Name] && n <= 27 {
				depth := 2
				if n > 9 && quick {
					depth = 1
				}
				for _, path := range atlas.ViewStates(shape, false, depth, true) {
					if len(path) == 0 {
						continue
					}
					path := path
					states = append(states, stt{"vg:" + atlas.PathString(path), func() *atlas.Built {
						b, _ := atlas.Replay(d, shape, false, path)
						return b
					}})
				}
			}
			if vgDT[d.Name] && n <= 27 {
				// ONE-element views with a wide storage window: a stepped range that selects a single element of an axis
				// (step = axis length) while every other axis is picked by an index - scalar-shaped, but not a plain scalar
				for k := range shape {
					if shape[k] < 2 {
						continue
					}
					for _, at := range []int{0, 1} {
						sl := make([]ref.Sl, len(shape))
						for i := range shape {
							sl[i] = ref.Sl{Single: true, Start: shape[i] - 1}
						}
						sl[k] = ref.Sl{Start: at, End: shape[k], Step: shape[k]}
						if at == 1 && shape[k] < 3 {
							continue
						}
						path := []atlas.Step{{Op: "S", Sl: sl}}
						states = append(states, stt{"vg1:" + atlas.PathString(path), func() *atlas.Built {
							b, _ := atlas.Replay(d, shape, false, path)
							return b
						}})
					}
				}
			}
			for _, st := range states {
				if !r.Take() {
					continue
				}
				if r.Expired() {
					return
				}
				for _, w := range c04Writes {
					if w.numeric && !d.IsNumber() {
						continue
					}
					id := fmt.Sprintf("C04|write|%s|%s|%s|%s", d.Name, shapeStr(shape), st.id, w.name)
					if r.ReplayCase != "" && id != r.ReplayCase {
						continue
					}
					tensor.VerifResetPools()
					b := st.mk()
					if b == nil {
						r.Dim("skipped_states", "unbuildable")
						continue
					}
					d.FillCodes(b.Root, 1) // identity codes (shifted by one so that no numeric cell holds 0)
					if cells, ok := b.APCells(); !ok || !ref.EqInts(cells, b.View.Cell) {
						r.Dim("skipped_states", "access-pattern-differs-from-model(C02/C03)")
						continue
					}
					r.State(atlas.StateKey(b.T, atlas.RootPtr(b.Root)))
					r.Dim("write_op", w.name)
					proper := len(b.View.Cell) < ref.SliceLen(b.Root)
					wn := w.name
					mk := st.mk
					r.Case(id, proper, func() *core.Fail {
						tensor.VerifResetPools()
						b := mk() // fresh state for every execution of the case
						d.FillCodes(b.Root, 1)
						b.Twin = mk
						return c04CheckWrite(r, b, wn)
					})
				}
			}
		}
	}
	// ---------- copies
	copyOps := []string{"Clone", "Materialize", "SafeT", "RollAxisSafeNoop", "SafeTIdentity", "Copy", "CopyTo", "ShallowClone", "ToMat64", "ToMat64Unsafe", "FromMat64", "native"}
	for _, d := range ref.ALL18 {
		for _, shape := range shapes {
			n := ref.Prod(shape)
			for _, lay := range []string{"C", "T", "S", "SS", "M", "ST", "TS", "Cl"} {
				if !r.Take() {
					continue
				}
				if r.Expired() {
					return
				}
				for _, cop := range copyOps {
					id := fmt.Sprintf("C04|copy|%s|%s|%s|%s", d.Name, shapeStr(shape), lay, cop)
					if r.ReplayCase != "" && id != r.ReplayCase {
						continue
					}
					tensor.VerifResetPools()
					vals := make([]interface{}, n)
					for i := range vals {
						vals[i] = d.Code(i + 1)
					}
					b, err := atlas.Build(d, shape, vals, lay)
					if err != nil {
						r.Dim("skipped_states", "unbuildable:"+lay)
						continue
					}
					if err := b.VerifyLogical(); err != nil {
						r.Dim("skipped_states", "atlas-mismatch:"+lay)
						continue
					}
					r.State(atlas.StateKey(b.T, atlas.RootPtr(b.Root)))
					r.Dim("copy_op", cop)
					cop, lay := cop, lay
					r.Case(id, n > 1, func() *core.Fail {
						tensor.VerifResetPools()
						b, _ := atlas.Build(d, shape, vals, lay)
						return c04CheckCopy(r, b, cop)
					})
				}
			}
		}
	}
	c04VGCopies(r, shapes, quick)
}

// c04VGCopies: the copy operations from NON-INITIAL view states - every slice/transpose view state of the view graph
// (depth 2; depth 1 above 9 elements in the quick tier) is cloned, materialised, safely transposed and copied.
func c04VGCopies(r *core.Run, shapes [][]int, quick bool) {
	for _, d := range []ref.DT{ref.Float64, ref.Uint8} {
		for _, shape := range shapes {
			n := ref.Prod(shape)
			if n > 27 {
				continue
			}
			depth := 2
			if n > 9 && quick {
				depth = 1
			}
			for _, path := range atlas.ViewStates(shape, false, depth, true) {
				if len(path) == 0 {
					continue
				}
				if !r.Take() {
					continue
				}
				if r.Expired() {
					return
				}
				path := path
				mk := func() *atlas.Built {
					b, _ := atlas.Replay(d, shape, false, path)
					if b == nil {
						return nil
					}
					d.FillCodes(b.Root, 1)
					b.Layout = "vg:" + atlas.PathString(path)
					b.Vals = make([]interface{}, len(b.View.Cell))
					for i, c := range b.View.Cell {
						b.Vals[i] = ref.SliceGet(b.Root, c)
					}
					return b
				}
				tensor.VerifResetPools()
				b0 := mk()
				if b0 == nil {
					r.Dim("skipped_states", "unbuildable")
					continue
				}
				if cells, ok := b0.APCells(); !ok || !ref.EqInts(cells, b0.View.Cell) {
					r.Dim("skipped_states", "access-pattern-differs-from-model(C02/C03)")
					continue
				}
				r.State(atlas.StateKey(b0.T, atlas.RootPtr(b0.Root)))
				for _, cop := range []string{"Clone", "Materialize", "SafeT", "Copy", "CopyTo"} {
					cop := cop
					id := fmt.Sprintf("C04|copy|%s|%s|vg:%s|%s", d.Name, shapeStr(shape), atlas.PathString(path), cop)
					if r.ReplayCase != "" && id != r.ReplayCase {
						continue
					}
					r.Dim("copy_op", cop)
					r.Case(id, len(b0.View.Cell) > 1, func() *core.Fail {
						tensor.VerifResetPools()
						return c04CheckCopy(r, mk(), cop)
					})
				}
			}
		}
	}
}

// probeDisjoint writes through cp and checks src's root is unchanged, then scribbles over src's root and checks cp's
// logical content is unchanged.
func probeDisjoint(src *atlas.Built, cp *tensor.Dense, what string) *core.Fail {
	d := src.DT
	snap := src.Snapshot()
	before, err := atlas.Logical(cp)
	if err != nil {
		return core.F("wrong-value", "unreadable", "%s: copy unreadable: %v", what, err)
	}
	i := 0
	var werr error
	ref.ForCoords(cp.Shape(), func(c []int) {
		if e := cp.SetAt(d.Code(2000+i), c...); e != nil && werr == nil {
			werr = e
		}
		i++
	})
	if ch := src.ChangedCells(snap); len(ch) > 0 {
		src.RestoreRoot(snap)
		return core.F("alias-unexpected", "w1", "%s: writing through the copy changed the source's storage cells %v", what, clip(ch))
	}
	// restore copy, scribble source
	i = 0
	ref.ForCoords(cp.Shape(), func(c []int) {
		cp.SetAt(before[i], c...)
		i++
	})
	nroot := ref.SliceLen(src.Root)
	for c := 0; c < nroot; c++ {
		ref.SliceSet(src.Root, c, d.Code(3000+c))
	}
	after, _ := atlas.Logical(cp)
	src.RestoreRoot(snap)
	for j := range before {
		if j >= len(after) || !ref.Same(before[j], after[j]) {
			return core.F("alias-unexpected", "w2", "%s: overwriting the source's storage changed element %d of the copy", what, j)
		}
	}
	return nil
}

func sameLogical(d ref.DT, t *tensor.Dense, shape []int, vals []interface{}, what string) *core.Fail {
	if t.Dtype() != d.D {
		return core.F("wrong-dtype", "dt", "%s: dtype %v, expected %v", what, t.Dtype(), d.D)
	}
	if !ref.EqInts(t.Shape(), shape) {
		return core.F("wrong-shape", "sh", "%s: shape %v, expected %v", what, t.Shape(), shape)
	}
	got, err := atlas.Logical(t)
	if err != nil {
		return core.F("wrong-value", "unreadable", "%s: %v", what, err)
	}
	for i := range vals {
		if !ref.Same(got[i], vals[i]) {
			return core.F("wrong-value", fmt.Sprintf("el%d", i), "%s: element %d is %s, expected %s (all: %s vs %s)", what, i, ref.Fmt(got[i]), ref.Fmt(vals[i]), ref.FmtEls(got), ref.FmtEls(vals))
		}
	}
	return nil
}

var nativeFns = map[string][4]interface{}{
	"bool": {native.VectorB, native.MatrixB, native.Tensor3B, native.SelectB}, "int": {native.VectorI, native.MatrixI, native.Tensor3I, native.SelectI},
	"int8": {native.VectorI8, native.MatrixI8, native.Tensor3I8, native.SelectI8}, "int16": {native.VectorI16, native.MatrixI16, native.Tensor3I16, native.SelectI16},
	"int32": {native.VectorI32, native.MatrixI32, native.Tensor3I32, native.SelectI32}, "int64": {native.VectorI64, native.MatrixI64, native.Tensor3I64, native.SelectI64},
	"uint": {native.VectorU, native.MatrixU, native.Tensor3U, native.SelectU}, "uint8": {native.VectorU8, native.MatrixU8, native.Tensor3U8, native.SelectU8},
	"uint16": {native.VectorU16, native.MatrixU16, native.Tensor3U16, native.SelectU16}, "uint32": {native.VectorU32, native.MatrixU32, native.Tensor3U32, native.SelectU32},
	"uint64": {native.VectorU64, native.MatrixU64, native.Tensor3U64, native.SelectU64}, "float32": {native.VectorF32, native.MatrixF32, native.Tensor3F32, native.SelectF32},
	"float64": {native.VectorF64, native.MatrixF64, native.Tensor3F64, native.SelectF64}, "complex64": {native.VectorC64, native.MatrixC64, native.Tensor3C64, native.SelectC64},
	"complex128": {native.VectorC128, native.MatrixC128, native.Tensor3C128, native.SelectC128}, "string": {native.VectorStr, native.MatrixStr, native.Tensor3Str, native.SelectStr},
}

// flatten walks nested slices in order.
func flatten(v reflect.Value, out *[]interface{}) {
	if v.Kind() == reflect.Slice {
		for i := 0; i < v.Len(); i++ {
			flatten(v.Index(i), out)
		}
		return
	}
	*out = append(*out, v.Interface())
}

func c04CheckCopy(r *core.Run, b *atlas.Built, cop string) *core.Fail {
	d := b.DT
	shape := b.View.Shape
	vals := b.Vals
	snap := b.Snapshot()
	srcUnchanged := func(what string) *core.Fail {
		if ch := b.Changed(snap); ch != "" {
			return core.F("operand-changed", "src", "%s changed its source: %s", what, ch)
		}
		return nil
	}
	rk := len(shape)
	switch cop {
	case "Clone", "Materialize":
		var cp *tensor.Dense
		o := call(func() error {
			if cop == "Clone" {
				cp = b.T.Clone().(*tensor.Dense)
			} else {
				cp = b.T.Materialize().(*tensor.Dense)
			}
			return nil
		})
		r.Op(1)
		r.Outcome(cop + ":" + o.Class)
		if o.Class != "ok" {
			if lenient {
				return nil
			}
			return core.F("unexpected-refusal", "x", "%s of layout %s: %s", cop, b.Layout, o)
		}
		if f := srcUnchanged(cop); f != nil {
			return f
		}
		if f := sameLogical(d, cp, shape, vals, cop+" of "+b.Layout); f != nil {
			return f
		}
		if cop == "Materialize" && !b.T.IsMaterializable() {
			return nil // documented identity
		}
		if cp == b.T {
			return core.F("alias-unexpected", "same", "%s returned the receiver", cop)
		}
		return probeDisjoint(b, cp, cop)
	case "SafeT":
		if rk < 2 {
			return nil
		}
		var cp *tensor.Dense
		o := call(func() (e error) { cp, e = b.T.SafeT(); return })
		r.Op(1)
		r.Outcome(cop + ":" + o.Class)
		if o.Class != "ok" {
			if lenient {
				return nil
			}
			return core.F("unexpected-refusal", "x", "SafeT of layout %s: %s", b.Layout, o)
		}
		if f := srcUnchanged(cop); f != nil {
			return f
		}
		want := ref.Arr{DT: d, Shape: shape, El: vals}.Permute(ref.Reversal(rk))
		if f := sameLogical(d, cp, want.Shape, want.El, "SafeT of "+b.Layout); f != nil {
			if tensor.Shape(shape).IsVector() && b.T.IsView() {
				f.Kind += "[KF:strided-vector-view]"
			}
			return f
		}
		return probeDisjoint(b, cp, cop)
	case "RollAxisSafeNoop", "SafeTIdentity":
		// the copying transposes asked for nothing: they still hand out a tensor of their own
		if rk < 1 {
			return nil
		}
		var cp *tensor.Dense
		o := call(func() (e error) {
			if cop == "RollAxisSafeNoop" {
				cp, e = b.T.RollAxis(rk-1, rk, true)
				return
			}
			ax := make([]int, rk)
			for i := range ax {
				ax[i] = i
			}
			cp, e = b.T.SafeT(ax...)
			return
		})
		r.Op(1)
		r.Outcome(cop + ":" + o.Class)
		if o.Class != "ok" {
			return nil
		}
		if f := srcUnchanged(cop); f != nil {
			return f
		}
		if cp == b.T {
			return core.F("alias-unexpected", "same", "%s returned the receiver itself", cop)
		}
		if f := sameLogical(d, cp, shape, vals, cop+" of "+b.Layout); f != nil {
			if tensor.Shape(shape).IsVector() && b.T.IsView() {
				f.Kind += "[KF:strided-vector-view]"
			}
			return f
		}
		return probeDisjoint(b, cp, cop)
	case "Copy", "CopyTo":
		dst := tensor.New(tensor.Of(d.D), tensor.WithShape(shape...))
		o := call(func() error {
			if cop == "Copy" {
				return tensor.Copy(dst, b.T)
			}
			return b.T.CopyTo(dst)
		})
		r.Op(1)
		r.Outcome(cop + ":" + o.Class)
		if f := srcUnchanged(cop); f != nil {
			return f
		}
		if o.Class != "ok" {
			return nil // refusal of a layout is not "different data"
		}
		if cop == "CopyTo" && (b.T.IsMaterializable() || b.T.RequiresIterator() || b.T.DataOrder().IsColMajor()) {
			// documented as a raw copy of the underlying data: logical equality is judged for plain sources only
			return probeDisjoint(b, dst, cop)
		}
		if f := sameLogical(d, dst, shape, vals, cop+" from "+b.Layout); f != nil {
			return f
		}
		return probeDisjoint(b, dst, cop)
	case "ShallowClone":
		var sc *tensor.Dense
		o := call(func() error { sc = b.T.ShallowClone(); return nil })
		r.Op(1)
		r.Outcome(cop + ":" + o.Class)
		if o.Class != "ok" {
			return core.F("unexpected-refusal", "x", "ShallowClone: %s", o)
		}
		if f := sameLogical(d, sc, shape, vals, "ShallowClone of "+b.Layout); f != nil {
			return f
		}
		// must alias: a write through the shallow clone lands in the source's cell
		if len(vals) > 0 {
			c := make([]int, rk)
			mk := markerFor(d, vals[0], 7)
			sc.SetAt(mk, c...)
			got := ref.SliceGet(b.Root, b.View.Cell[0])
			b.RestoreRoot(snap)
			if !ref.Same(got, mk) {
				return core.F("alias-missing", "sc", "a write through ShallowClone is not visible in the source")
			}
		}
		return nil
	case "ToMat64", "ToMat64Unsafe", "FromMat64":
		if rk != 2 || !d.IsOrdNum() {
			return nil
		}
		if cop == "FromMat64" {
			m := mat.NewDense(shape[0], shape[1], nil)
			for i := 0; i < shape[0]; i++ {
				for j := 0; j < shape[1]; j++ {
					f, _ := ref.ToF64(vals[i*shape[1]+j])
					m.Set(i, j, f)
				}
			}
			var t *tensor.Dense
			o := call(func() error { t = tensor.FromMat64(m, tensor.As(d.D)); return nil })
			r.Op(1)
			r.Outcome(cop + ":" + o.Class)
			if o.Class != "ok" {
				return core.F("unexpected-refusal", "x", "FromMat64: %s", o)
			}
			return sameLogical(d, t, shape, vals, "FromMat64")
		}
		var m *mat.Dense
		o := call(func() (e error) {
			if cop == "ToMat64Unsafe" {
				m, e = tensor.ToMat64(b.T, tensor.UseUnsafe())
			} else {
				m, e = tensor.ToMat64(b.T)
			}
			return
		})
		r.Op(1)
		r.Outcome(cop + ":" + o.Class)
		if f := srcUnchanged(cop); f != nil {
			return f
		}
		if o.Class != "ok" {
			return nil
		}
		rr, cc := m.Dims()
		if rr != shape[0] || cc != shape[1] {
			return core.F("wrong-shape", "m", "%s: dims %dx%d expected %v", cop, rr, cc, shape)
		}
		for i := 0; i < rr; i++ {
			for j := 0; j < cc; j++ {
				f, _ := ref.ToF64(vals[i*cc+j])
				if m.At(i, j) != f {
					return core.F("wrong-value", fmt.Sprintf("m%d_%d", i, j), "%s of layout %s: element (%d,%d) is %v expected %v", cop, b.Layout, i, j, m.At(i, j), f)
				}
			}
		}
		if cop == "ToMat64" {
			// safe conversion must not share storage
			m.Set(0, 0, 12345)
			if ch := b.ChangedCells(snap); len(ch) > 0 {
				b.RestoreRoot(snap)
				return core.F("alias-unexpected", "m", "writing the safe ToMat64 result changed the tensor")
			}
		}
		return nil
	case "native":
		fns, ok := nativeFns[d.Name]
		if !ok || rk < 1 || rk > 3 {
			return nil
		}
		var fails []string
		try := func(name string, fn interface{}, args ...reflect.Value) {
			var outs []reflect.Value
			o := call(func() error {
				outs = reflect.ValueOf(fn).Call(append([]reflect.Value{reflect.ValueOf(b.T)}, args...))
				if !outs[1].IsNil() {
					return outs[1].Interface().(error)
				}
				return nil
			})
			r.Op(1)
			r.Outcome("native." + name + ":" + o.Class)
			if o.Class != "ok" {
				return // refusal
			}
			var flat []interface{}
			if outs[0].Kind() == reflect.Interface {
				outs[0] = outs[0].Elem() // the type-generic forms return interface{}
			}
			flatten(outs[0], &flat)
			if len(flat) != len(vals) {
				fails = append(fails, fmt.Sprintf("%s: %d elements, expected %d", name, len(flat), len(vals)))
				return
			}
			for i := range vals {
				if !ref.Same(flat[i], vals[i]) {
					fails = append(fails, fmt.Sprintf("%s of layout %s: element %d is %s expected %s", name, b.Layout, i, ref.Fmt(flat[i]), ref.Fmt(vals[i])))
					return
				}
			}
		}
		switch rk {
		case 1:
			try("Vector", fns[0])
			try("Vector(generic)", native.Vector)
		case 2:
			try("Matrix", fns[1])
			try("Matrix(generic)", native.Matrix)
		case 3:
			try("Tensor3", fns[2])
			try("Tensor3(generic)", native.Tensor3)
		}
		// Select(axis) yields rows of the array flattened after the axis: same flat order for every axis
		for ax := 0; ax < rk; ax++ {
			try(fmt.Sprintf("Select(%d)", ax), fns[3], reflect.ValueOf(ax))
		}
		if f := srcUnchanged(cop); f != nil {
			return f
		}
		if len(fails) > 0 {
			return core.F("wrong-value", fmt.Sprintf("n%d", len(fails)), "%s", strings.Join(fails, " ; "))
		}
		return nil
	}
	return nil
}
