// Package vsync is a drop-in shim for the parts of package sync that gorgonia/tensor's pool code uses
// (Mutex, Pool). It is mapped into /repo/internal/vsync by `go build -overlay` and the import "sync" of
// perf.go / array.go / blas.go is rewritten to it; no file of the repository is edited.
//
//   - Pool is a deterministic LIFO free list. Every behaviour it has is a legal behaviour of sync.Pool
//     (which may hand back any previously Put item, or none). Get consults AnswerHook for an
//     environment answer: 0 = most recently Put item (default), 1 = behave as empty.
//   - Mutex is a real mutex; under a scheduler (LockHook/UnlockHook set) it is modelled cooperatively.
//   - Point(what) is a scheduling point; perf.go functions get one inserted as first statement.
package vsync

import "sync"

// PointHook is called at every scheduling point by the goroutine that reaches it.
var PointHook func(what string)

// AnswerHook supplies the environment answer for Pool.Get when the free list is not empty.
var AnswerHook func(p *Pool, n int) int

// LockHook/UnlockHook, when set, replace the real mutex by the scheduler's model of it.
var LockHook func(m *Mutex)
var UnlockHook func(m *Mutex)

// EventHook observes pool traffic (for the C19 pool-discipline monitor).
var EventHook func(ev string, p *Pool, item interface{})

func Point(what string) {
	if h := PointHook; h != nil {
		h(what)
	}
}

type Mutex struct {
	mu sync.Mutex
}

func (m *Mutex) Lock() {
	if h := LockHook; h != nil {
		h(m)
		return
	}
	m.mu.Lock()
}

func (m *Mutex) Unlock() {
	if h := UnlockHook; h != nil {
		h(m)
		return
	}
	m.mu.Unlock()
}

type Pool struct {
	New func() interface{}

	mu    sync.Mutex
	items []interface{}
	reg   bool
}

var regMu sync.Mutex
var registry []*Pool

func (p *Pool) register() {
	if !p.reg {
		p.reg = true
		regMu.Lock()
		registry = append(registry, p)
		regMu.Unlock()
	}
}

func (p *Pool) Get() interface{} {
	Point("Pool.Get")
	p.mu.Lock()
	p.register()
	n := len(p.items)
	ans := 0
	if n > 0 {
		if h := AnswerHook; h != nil {
			ans = h(p, n)
		}
	}
	if n > 0 && ans == 0 {
		x := p.items[n-1]
		p.items[n-1] = nil
		p.items = p.items[:n-1]
		p.mu.Unlock()
		if h := EventHook; h != nil {
			h("get", p, x)
		}
		return x
	}
	p.mu.Unlock()
	if p.New != nil {
		x := p.New()
		if h := EventHook; h != nil {
			h("new", p, x)
		}
		return x
	}
	return nil
}

func (p *Pool) Put(x interface{}) {
	Point("Pool.Put")
	p.mu.Lock()
	p.register()
	p.items = append(p.items, x)
	p.mu.Unlock()
	if h := EventHook; h != nil {
		h("put", p, x)
	}
}

// Len returns the length of the free list.
func (p *Pool) Len() int {
	p.mu.Lock()
	defer p.mu.Unlock()
	return len(p.items)
}

// Items returns a copy of the free list (oldest first).
func (p *Pool) Items() []interface{} {
	p.mu.Lock()
	defer p.mu.Unlock()
	return append([]interface{}(nil), p.items...)
}

// Unregister forgets a pool that the library has dropped (a lazily created pool whose table entry was deleted for a cold
// start): without it the registry - and every ResetAll - would grow with every execution.
func Unregister(p *Pool) {
	if p == nil || !p.reg {
		return
	}
	regMu.Lock()
	for i, q := range registry {
		if q == p {
			registry[i] = registry[len(registry)-1]
			registry[len(registry)-1] = nil
			registry = registry[:len(registry)-1]
			break
		}
	}
	regMu.Unlock()
	p.reg = false
}

// ResetAll empties every pool that has ever been used.
func ResetAll() {
	regMu.Lock()
	ps := append([]*Pool(nil), registry...)
	regMu.Unlock()
	for _, p := range ps {
		p.mu.Lock()
		for i := range p.items {
			p.items[i] = nil
		}
		p.items = p.items[:0]
		p.mu.Unlock()
	}
}

// All returns every pool that has ever been used.
func All() []*Pool {
	regMu.Lock()
	defer regMu.Unlock()
	return append([]*Pool(nil), registry...)
}
