//go:build verif

package tensor

import (
	"unsafe"

	"gorgonia.org/tensor/internal/storage"
)

// This file is ADDED to package tensor by `go build -overlay` (it does not exist in the repository).
// It exports read-only views of private state for the verification oracles.

// VerifMeta is a snapshot of the private metadata of a *Dense.
type VerifMeta struct {
	Shape, Strides       []int
	Fin                  bool
	O                    DataOrder
	Tri                  Triangle
	OldShape, OldStrides []int
	OldO                 DataOrder
	OldZero              bool
	TransposeWith        []int
	HasTW                bool
	ViewOf               uintptr
	Mask                 []bool
	MaskIsSoft           bool
	Flag                 MemoryFlag
	RawPtr               uintptr
	RawLen, RawCap       int
	ElSize               int
	// base pointers of metadata slices, for alias analysis
	ShapePtr, StridesPtr, OldShapePtr, OldStridesPtr, TWPtr, MaskPtr uintptr
	ShapeCap, StridesCap, OldShapeCap, OldStridesCap, TWCap, MaskCap int
}

func intsPtr(s []int) uintptr {
	if cap(s) == 0 {
		return 0
	}
	s = s[:1]
	return uintptr(unsafe.Pointer(&s[0]))
}
func boolsPtr(s []bool) uintptr {
	if cap(s) == 0 {
		return 0
	}
	s = s[:1]
	return uintptr(unsafe.Pointer(&s[0]))
}

func cpInts(s []int) []int {
	if s == nil {
		return nil
	}
	return append([]int{}, s...)
}

// VerifMetaOf snapshots t's metadata (deep copies; t is not modified).
func VerifMetaOf(t *Dense) VerifMeta {
	m := VerifMeta{
		Shape: cpInts(t.shape), Strides: cpInts(t.strides), Fin: t.fin, O: t.o, Tri: t.Δ,
		OldShape: cpInts(t.old.shape), OldStrides: cpInts(t.old.strides), OldO: t.old.o, OldZero: t.old.IsZero(),
		TransposeWith: cpInts(t.transposeWith), HasTW: t.transposeWith != nil,
		ViewOf: t.viewOf, MaskIsSoft: t.maskIsSoft, Flag: t.flag,
		RawLen: len(t.array.Header.Raw), RawCap: cap(t.array.Header.Raw),
		ShapePtr: intsPtr(t.shape), StridesPtr: intsPtr(t.strides), OldShapePtr: intsPtr(t.old.shape),
		OldStridesPtr: intsPtr(t.old.strides), TWPtr: intsPtr(t.transposeWith), MaskPtr: boolsPtr(t.mask),
		ShapeCap: cap(t.shape), StridesCap: cap(t.strides), OldShapeCap: cap(t.old.shape),
		OldStridesCap: cap(t.old.strides), TWCap: cap(t.transposeWith), MaskCap: cap(t.mask),
	}
	if t.mask != nil {
		m.Mask = append([]bool{}, t.mask...)
	}
	if t.t.Type != nil {
		m.ElSize = int(t.t.Size())
	}
	if cap(t.array.Header.Raw) > 0 {
		r := t.array.Header.Raw[:1]
		m.RawPtr = uintptr(unsafe.Pointer(&r[0]))
	}
	return m
}

// VerifRaw returns the raw byte window of t (aliases t's storage).
func VerifRaw(t *Dense) []byte { return t.array.Header.Raw }

// VerifAPOf exposes the AP fields of any AP.
func VerifAPOf(ap *AP) (shape, strides []int, o DataOrder) {
	return cpInts(ap.shape), cpInts(ap.strides), ap.o
}

// VerifDrainChanPools empties the channel based pools (densePool, boolsPool, headerPool) and returns
// what they contained.
func VerifDrainChanPools() (dense []*Dense, bools [][]bool, hdrs int) {
	for {
		select {
		case d := <-densePool:
			dense = append(dense, d)
			continue
		default:
		}
		break
	}
	for {
		select {
		case b := <-boolsPool:
			bools = append(bools, b)
			continue
		default:
		}
		break
	}
	for {
		select {
		case <-headerPool:
			hdrs++
			continue
		default:
		}
		break
	}
	return
}

// VerifRefillChanPools puts back what VerifDrainChanPools removed (same order).
func VerifRefillChanPools(dense []*Dense, bools [][]bool) {
	for _, d := range dense {
		densePool <- d
	}
	for _, b := range bools {
		boolsPool <- b
	}
}

// VerifUsePool reports the usePool flag.
func VerifUsePool() bool { return usePool }

// VerifHashIntArray exposes hashIntArray (iterator_utils.go) for C05 diagnostics.
func VerifDensePoolLen() int { return len(densePool) }

// VerifFlatIterState exposes the private cursor of a FlatIterator (for BFS state keys).
func VerifFlatIterState(it *FlatIterator) (track []int, next, last int, done, reverse bool) {
	return cpInts(it.track), it.nextIndex, it.lastIndex, it.done, it.reverse
}

// VerifDivmod exposes divmod (assembly by default, pure Go under -tags noasm).
func VerifDivmod(a, b int) (int, int) { return divmod(a, b) }

func fnvInts(h uint64, s []int) uint64 {
	h = (h ^ uint64(len(s))) * 1099511628211
	for _, v := range s {
		h = (h ^ uint64(v)) * 1099511628211
	}
	return h
}

// VerifQuickHash is an allocation-free hash of everything observable about t: metadata (shape, strides, order, pending
// transpose, view flag, mask) and the bytes of its storage window. Used as the shared-state monitor of C18.
func VerifQuickHash(t *Dense) uint64 {
	h := uint64(14695981039346656037)
	h = fnvInts(h, t.shape)
	h = fnvInts(h, t.strides)
	h = fnvInts(h, t.old.shape)
	h = fnvInts(h, t.old.strides)
	h = fnvInts(h, t.transposeWith)
	h = (h ^ uint64(t.o) ^ uint64(t.old.o)<<8 ^ uint64(t.flag)<<16) * 1099511628211
	if t.viewOf != 0 {
		h = (h ^ 1) * 1099511628211
	}
	if t.maskIsSoft {
		h = (h ^ 2) * 1099511628211
	}
	for _, m := range t.mask {
		if m {
			h = (h ^ 3) * 1099511628211
		} else {
			h = (h ^ 5) * 1099511628211
		}
	}
	raw := t.array.Header.Raw
	h = (h ^ uint64(len(raw))) * 1099511628211
	for _, b := range raw {
		h = (h ^ uint64(b)) * 1099511628211
	}
	return h
}

// VerifHeaderPoolDup drains the scalar-header pool, counts headers that are in it more than once, and refills it.
func VerifHeaderPoolDup() (n, dup int) {
	var hs []*storage.Header
	for {
		select {
		case h := <-headerPool:
			hs = append(hs, h)
			continue
		default:
		}
		break
	}
	seen := map[*storage.Header]bool{}
	for _, h := range hs {
		if seen[h] {
			dup++
		}
		seen[h] = true
	}
	for _, h := range hs {
		select {
		case headerPool <- h:
		default:
		}
	}
	return len(hs), dup
}

// VerifResetLazyGlobals empties the package-level tables that are filled on first use (the scalar scratch pools by
// element width), so that every execution - and every program of the free-running race pass - starts cold and goes
// through the first-use paths again.
func VerifResetLazyGlobals() {
	scalarRCLock.Lock()
	for k := range scalarRC {
		delete(scalarRC, k)
	}
	scalarRCLock.Unlock()
	// element types registered after start-up (Register appends to the table when a type is missing from it)
	if len(allTypes.set) > verifInitialTypes {
		allTypes.set = allTypes.set[:verifInitialTypes:verifInitialTypes]
	}
}

// verifInitialTypes is the length of the element-type table as the package initialises it.
var verifInitialTypes = len(allTypes.set)
