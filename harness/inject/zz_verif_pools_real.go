//go:build verif && verifrealsync

package tensor

// Variant of zz_verif_pools.go for the free-running -race pass: the library keeps the real package sync (the shim's
// own mutex would add happens-before edges the real per-P pools do not have).

func VerifResetPools() { VerifDrainChanPools(); VerifResetLazyGlobals(); usePool = true }

func VerifIntsPoolItems() [][][]int { return nil }

func VerifSetHooks(point func(what string), answer func(pool uintptr, n int) int, lock, unlock func(m uintptr), event func(ev string, pool uintptr, item interface{})) {
}

func VerifRealSync() bool { return true }

func VerifPoolHash() uint64 { return 0 }

func VerifPoolDuplicates() (int, string) { return 0, "" }
