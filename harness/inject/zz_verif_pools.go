//go:build verif && !verifrealsync

package tensor

import (
	"gorgonia.org/tensor/internal/vsync"
)

// VerifResetPools empties every library pool so that each case starts from the same global state.
func VerifResetPools() {
	VerifDrainChanPools()
	vsync.ResetAll()
	usePool = true
}

// VerifIntsPoolItems returns the free list of each ints size class.
func VerifIntsPoolItems() [][][]int {
	out := make([][][]int, len(intsPool))
	for i := range intsPool {
		for _, it := range intsPool[i].Items() {
			out[i] = append(out[i], it.([]int))
		}
	}
	return out
}

// VerifIntsPoolIndex returns the size class of an ints pool, or -1.
func VerifIntsPoolIndex(p *vsync.Pool) int {
	for i := range intsPool {
		if &intsPool[i] == p {
			return i
		}
	}
	return -1
}
