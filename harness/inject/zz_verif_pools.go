//go:build verif && !verifrealsync

package tensor

import (
	"reflect"
	"unsafe"

	"gorgonia.org/tensor/internal/vsync"
)

// VerifResetPools empties every library pool so that each case starts from the same global state.
func VerifResetPools() {
	VerifDrainChanPools()
	scalarRCLock.Lock()
	for _, p := range scalarRC {
		vsync.Unregister(p) // the table entry is about to be deleted: the shim must not keep the pool either
	}
	scalarRCLock.Unlock()
	VerifResetLazyGlobals()
	vsync.ResetAll()
	usePool = true
}

// VerifIntsPoolItems returns the free list of each ints size class.
func VerifIntsPoolItems() [][][]int {
	out := make([][][]int, len(intsPool))
	for i := range intsPool {
		for _, it := range intsPool[i].Items() {
			out[i] = append(out[i], it.([]int))
		}
	}
	return out
}

// VerifSetHooks installs the explorer's hooks into the sync shim (nil removes them). Mutexes and pools are identified
// by address.
func VerifSetHooks(point func(what string), answer func(pool uintptr, n int) int, lock, unlock func(m uintptr), event func(ev string, pool uintptr, item interface{})) {
	vsync.PointHook = point
	if answer != nil {
		vsync.AnswerHook = func(p *vsync.Pool, n int) int { return answer(uintptr(unsafe.Pointer(p)), n) }
	} else {
		vsync.AnswerHook = nil
	}
	if lock != nil {
		vsync.LockHook = func(m *vsync.Mutex) { lock(uintptr(unsafe.Pointer(m))) }
		vsync.UnlockHook = func(m *vsync.Mutex) { unlock(uintptr(unsafe.Pointer(m))) }
	} else {
		vsync.LockHook, vsync.UnlockHook = nil, nil
	}
	if event != nil {
		vsync.EventHook = func(ev string, p *vsync.Pool, item interface{}) { event(ev, uintptr(unsafe.Pointer(p)), item) }
	} else {
		vsync.EventHook = nil
	}
}

// VerifRealSync reports whether the library is built against the real package sync.
func VerifRealSync() bool { return false }

// VerifPoolHash summarises the global pool state (free-list lengths, pool flag) without allocating.
func VerifPoolHash() uint64 {
	h := uint64(14695981039346656037)
	for i := range intsPool {
		h = (h ^ uint64(intsPool[i].Len())) * 1099511628211
	}
	h = (h ^ uint64(len(densePool))) * 1099511628211
	h = (h ^ uint64(len(boolsPool))) * 1099511628211
	h = (h ^ uint64(len(headerPool))) * 1099511628211
	if usePool {
		h ^= 1
	}
	return h
}

// VerifPoolDuplicates counts, over every sync.Pool of the library (the shim keeps their free lists), the items that are
// in one free list more than once: an object handed back twice will be handed out to two borrowers.
func VerifPoolDuplicates() (dup int, what string) {
	for _, p := range vsync.All() {
		seen := map[uintptr]bool{}
		for _, it := range p.Items() {
			v := reflect.ValueOf(it)
			var key uintptr
			switch v.Kind() {
			case reflect.Ptr, reflect.UnsafePointer:
				key = v.Pointer()
			case reflect.Slice:
				if v.Cap() == 0 {
					continue
				}
				key = v.Pointer()
			default:
				continue
			}
			if key == 0 {
				continue
			}
			if seen[key] {
				dup++
				what = reflect.TypeOf(it).String()
			}
			seen[key] = true
		}
	}
	return
}
