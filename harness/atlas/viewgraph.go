package atlas

import (
	"fmt"
	"strings"

	"gorgonia.org/tensor"
	"verifharness/ref"
)

// Step is one view-graph operation applied in lock-step to the real tensor and to the model view.
type Step struct {
	Op   string   // "S" slice, "T" lazy transpose with Perm (nil = default reversal), "UT" undo
	Sl   []ref.Sl // for S
	Perm []int    // for T
}

func (s Step) String() string {
	switch s.Op {
	case "S":
		parts := make([]string, len(s.Sl))
		for i, x := range s.Sl {
			parts[i] = x.String()
		}
		return "S[" + strings.Join(parts, ",") + "]"
	case "T":
		if s.Perm == nil {
			return "T()"
		}
		return "T" + strings.ReplaceAll(fmt.Sprint(s.Perm), " ", ",")
	}
	return s.Op
}

func PathString(p []Step) string {
	parts := make([]string, len(p))
	for i, s := range p {
		parts[i] = s.String()
	}
	return strings.Join(parts, ".")
}

// ApplyResult classifies the joint outcome of one step.
type ApplyResult struct {
	Class   string // "ok", "lib-error", "lib-panic", "model-invalid+lib-error" (agreeing refusal), "accepted-invalid", "unspecified", "shape-divergence"
	Err     error
	Panic   interface{}
	Model   ref.View // model result before axis dropping (for S)
	Drop    []bool
	RealShp []int
}

// Apply applies the step to b's real tensor and model. T/UT mutate b.T in place (as the library does) and
// return b itself with the new model; S returns a new Built sharing b's root.
func (b *Built) Apply(st Step) (*Built, ApplyResult) {
	switch st.Op {
	case "S":
		mv, drop, merr := b.View.Slice(st.Sl)
		var rv tensor.View
		var err error
		var pv interface{}
		func() {
			defer func() { pv = recover() }()
			rv, err = b.T.Slice(ToSlices(st.Sl)...)
		}()
		if merr == ref.ErrUnspecified {
			return nil, ApplyResult{Class: "unspecified"}
		}
		if pv != nil {
			return nil, ApplyResult{Class: "lib-panic", Panic: pv, Model: mv}
		}
		if merr == ref.ErrInvalid {
			if err != nil {
				return nil, ApplyResult{Class: "model-invalid+lib-error", Err: err}
			}
			return nil, ApplyResult{Class: "accepted-invalid", RealShp: ref.CopyInts(rv.Shape())}
		}
		if err != nil {
			return nil, ApplyResult{Class: "lib-error", Err: err, Model: mv}
		}
		d := rv.(*tensor.Dense)
		which, ok := ref.MatchDropped(mv.Shape, drop, d.Shape())
		if !ok {
			nb := &Built{DT: b.DT, Layout: b.Layout, T: d, Root: b.Root, RootT: b.RootT}
			return nb, ApplyResult{Class: "shape-divergence", Model: mv, Drop: drop, RealShp: ref.CopyInts(d.Shape())}
		}
		nb := &Built{DT: b.DT, Layout: b.Layout, T: d, Root: b.Root, RootT: b.RootT, View: mv.DropAxes(which)}
		return nb, ApplyResult{Class: "ok", Model: mv, Drop: drop, RealShp: ref.CopyInts(d.Shape())}
	case "T":
		r := len(b.View.Shape)
		p := st.Perm
		valid := true
		if p == nil {
			p = ref.Reversal(r)
		} else {
			valid = ref.ValidPerm(p, r)
		}
		var err error
		var pv interface{}
		func() {
			defer func() { pv = recover() }()
			if st.Perm == nil {
				err = b.T.T()
			} else {
				err = b.T.T(ref.CopyInts(st.Perm)...)
			}
		}()
		if pv != nil {
			return nil, ApplyResult{Class: "lib-panic", Panic: pv}
		}
		if !valid {
			if err != nil {
				return nil, ApplyResult{Class: "model-invalid+lib-error", Err: err}
			}
			return nil, ApplyResult{Class: "accepted-invalid", RealShp: ref.CopyInts(b.T.Shape())}
		}
		if err != nil {
			return nil, ApplyResult{Class: "lib-error", Err: err}
		}
		mv := b.View.Permute(p)
		if !ref.EqInts(mv.Shape, b.T.Shape()) {
			return b, ApplyResult{Class: "shape-divergence", Model: mv, RealShp: ref.CopyInts(b.T.Shape())}
		}
		b.View = mv
		return b, ApplyResult{Class: "ok", Model: mv, RealShp: ref.CopyInts(b.T.Shape())}
	}
	panic("atlas: unknown step " + st.Op)
}

// AxisAlphabet is the reduced valid per-axis slice alphabet used for nested view graphs.
func AxisAlphabet(n int) []ref.Sl {
	out := []ref.Sl{{Nil: true}}
	if n >= 2 {
		out = append(out, ref.Sl{Start: 1, End: n, Step: 1}, ref.Sl{Start: 0, End: n - 1, Step: 1})
		out = append(out, ref.Sl{Single: true, Start: 0}, ref.Sl{Single: true, Start: n - 1})
		out = append(out, ref.Sl{Start: 0, End: n, Step: 2})
	}
	if n >= 3 {
		out = append(out, ref.Sl{Start: 1, End: n - 1, Step: 1}, ref.Sl{Start: 1, End: n, Step: 2})
	}
	return out
}

// SliceLists enumerates the cross product of per-axis alphabets (all axes given).
func SliceLists(shape []int, alpha func(n int) []ref.Sl) [][]ref.Sl {
	out := [][]ref.Sl{{}}
	for _, n := range shape {
		var next [][]ref.Sl
		for _, pre := range out {
			for _, a := range alpha(n) {
				next = append(next, append(append([]ref.Sl{}, pre...), a))
			}
		}
		out = next
	}
	return out
}

// ViewStates enumerates (by BFS with dedup on the model) the view states reachable from a fresh root of the
// given shape and order in at most depth steps over {slice lists from AxisAlphabet, T(), T(rotation), UT is
// covered by C03}. Each state is returned as the path that reaches it; callers rebuild it with Replay.
func ViewStates(shape []int, fortran bool, depth int, withT bool) [][]Step {
	type qe struct {
		path []Step
		view ref.View
	}
	root := ref.RootC(shape)
	if fortran {
		root = ref.RootF(shape)
	}
	// dedup on the model view AND the kinds of the steps taken: the same logical view reached as slice-of-transpose and
	// as transpose-of-slice is two different real states (different flags / pending transposes), so they are not merged;
	// neither are the same elements cut by slice arguments of different forms (different storage windows)
	kinds := func(path []Step, last Step) string {
		var sb strings.Builder
		for _, st := range append(append([]Step{}, path...), last) {
			if st.Op == "T" {
				sb.WriteString(st.String())
			} else {
				// the FORM of every slice argument (whole axis, index, range, stepped range): the same elements cut by a
				// stepped and by a plain range are views with different storage windows
				sb.WriteString(st.Op)
				for _, x := range st.Sl {
					switch {
					case x.Nil:
						sb.WriteByte('n')
					case x.Single:
						sb.WriteByte('i')
					case x.Step > 1:
						sb.WriteByte('s')
					default:
						sb.WriteByte('r')
					}
				}
			}
			sb.WriteByte('.')
		}
		return sb.String()
	}
	key := func(v ref.View) string { return fmt.Sprint(v.Shape, v.Cell) }
	seen := map[string]bool{key(root) + "|": true}
	out := [][]Step{{}}
	frontier := []qe{{nil, root}}
	for d := 0; d < depth; d++ {
		var next []qe
		for _, e := range frontier {
			var steps []Step
			r := len(e.view.Shape)
			for _, sl := range SliceLists(e.view.Shape, AxisAlphabet) {
				allNil := true
				for _, s := range sl {
					if !s.Nil {
						allNil = false
					}
				}
				if !allNil {
					steps = append(steps, Step{Op: "S", Sl: sl})
				}
			}
			if withT && r >= 2 {
				steps = append(steps, Step{Op: "T"})
				if r >= 3 {
					rot := make([]int, r)
					for i := range rot {
						rot[i] = (i + 1) % r
					}
					steps = append(steps, Step{Op: "T", Perm: rot})
				}
			}
			for _, st := range steps {
				var nv ref.View
				switch st.Op {
				case "S":
					mv, drop, err := e.view.Slice(st.Sl)
					if err != nil {
						continue
					}
					// canonical model successor: drop every droppable axis except keep at least what the
					// library keeps is unknown here; dedup on the undropped model (cells identical either way)
					_ = drop
					nv = mv
				case "T":
					p := st.Perm
					if p == nil {
						p = ref.Reversal(r)
					}
					nv = e.view.Permute(p)
				}
				k := key(nv) + "|" + kinds(e.path, st)
				if seen[k] {
					continue
				}
				seen[k] = true
				path := append(append([]Step{}, e.path...), st)
				out = append(out, path)
				next = append(next, qe{path, nv})
			}
		}
		frontier = next
	}
	return out
}

// Replay builds a fresh root (identity-coded by the caller via Fill) and applies the path. It returns the
// final Built (nil if some step did not end in class "ok") and the class of the step that stopped it.
func Replay(d ref.DT, shape []int, fortran bool, path []Step) (rb *Built, cls string) {
	defer func() {
		if p := recover(); p != nil {
			rb, cls = nil, "lib-panic"
		}
	}()
	rt, back := newRoot(d, shape, fortran, false)
	b := &Built{DT: d, Layout: "vg", T: rt, Root: back, RootT: rt}
	if fortran {
		b.View = ref.RootF(shape)
	} else {
		b.View = ref.RootC(shape)
	}
	for _, st := range path {
		nb, res := b.Apply(st)
		if res.Class != "ok" {
			return nil, res.Class
		}
		b = nb
	}
	return b, "ok"
}
