// Package atlas builds real tensors with a requested logical content in every memory layout, together with
// the harness-owned root backing and the model of which root cell every logical coordinate denotes; and the
// observers (logical read-out, root snapshot/diff, metadata fingerprint).
package atlas

import (
	"bytes"
	"encoding/binary"
	"errors"
	"fmt"
	"reflect"
	"strings"
	"unsafe"

	"gorgonia.org/tensor"
	"verifharness/ref"
)

var ErrNA = errors.New("layout not applicable to this shape")

type Built struct {
	DT     ref.DT
	Layout string
	T      *tensor.Dense
	Root   interface{}   // []T the view's cells live in (harness-owned for all layouts but M/Cl)
	RootT  *tensor.Dense // root tensor (kept alive)
	View   ref.View      // model: logical coordinate -> root cell
	Vals   []interface{} // logical values, row-major
	Twin   func() *Built // optional: builds the same state over a second, independent root
}

// L5 is the operand-layout set named by C06: contiguous, lazily transposed, sliced, step-sliced, materialised.
var L5 = []string{"C", "T", "S", "SS", "M", "Cl"}

// LF is the column-major layout family of C16.
var LF = []string{"F", "Fc", "FS", "FT", "FM", "FR", "FL"}

// LAll lists every layout the atlas can build.
var LAll = []string{"C", "T", "S", "SS", "M", "ST", "TS", "Cl", "R", "L", "F", "Fc", "FS", "FT", "FM", "FR", "FL"}

func rev(s []int) []int {
	o := make([]int, len(s))
	for i := range s {
		o[i] = s[len(s)-1-i]
	}
	return o
}

// ToSlices converts model slice arguments to library slice arguments.
func ToSlices(sls []ref.Sl) []tensor.Slice {
	out := make([]tensor.Slice, len(sls))
	for i, s := range sls {
		switch {
		case s.Nil:
			out[i] = nil
		case s.Single:
			out[i] = tensor.S(s.Start)
		default:
			out[i] = tensor.S(s.Start, s.End, s.Step)
		}
	}
	return out
}

// Poison is the value stored in root cells outside the view.
func Poison(d ref.DT, cell int) interface{} { return d.Code(101 + 3*cell) }

func newRoot(d ref.DT, shape []int, fortran bool, conv bool) (*tensor.Dense, interface{}) {
	n := ref.Prod(shape)
	back := d.MakeSlice(n)
	var t *tensor.Dense
	switch {
	case conv:
		t = tensor.New(tensor.WithShape(shape...), tensor.AsFortran(back))
	case fortran:
		t = tensor.New(tensor.WithShape(shape...), tensor.WithBacking(back), tensor.AsFortran(nil))
	default:
		t = tensor.New(tensor.WithShape(shape...), tensor.WithBacking(back))
	}
	return t, back
}

// dirtyPool leaves recycled *Dense objects in the library's pool (most recently returned last).
func dirtyPool(d ref.DT, shape []int) {
	defer func() { recover() }()
	n := ref.Prod(shape)
	if n == 0 {
		return
	}
	// a masked tensor
	mt := tensor.New(tensor.WithShape(n), tensor.WithBacking(d.MakeSlice(n), make([]bool, n)))
	tensor.ReturnTensor(mt)
	// a row view of a bigger tensor, and its parent
	if len(shape) >= 1 && shape[0] >= 1 {
		big := ref.CopyInts(shape)
		big[0] += 2
		p, _ := newRoot(d, big, false, false)
		if v, err := p.Slice(tensor.S(1, shape[0]+1)); err == nil {
			tensor.ReturnTensor(v.(*tensor.Dense))
		}
		tensor.ReturnTensor(p)
	}
	// a lazily transposed tensor of the reversed shape (so that it has the upcoming root's shape), returned last
	if len(shape) >= 2 {
		t, _ := newRoot(d, rev(shape), false, false)
		if t.T() == nil {
			tensor.ReturnTensor(t)
		}
		if len(shape) >= 3 {
			t2, _ := newRoot(d, shape, false, false)
			rot := make([]int, len(shape))
			for i := range rot {
				rot[i] = (i + 1) % len(shape)
			}
			if t2.T(rot...) == nil {
				tensor.ReturnTensor(t2)
			}
		}
	}
}

// interior: root padded by one on both sides of every axis longer than one, sliced [1:n+1]; length-one axes are
// kept whole (a range that cuts an axis to length one would let the library drop the axis).
func interior(shape []int) (rootShape []int, m []ref.Sl, t []tensor.Slice) {
	m = make([]ref.Sl, len(shape))
	rootShape = make([]int, len(shape))
	for i, n := range shape {
		if n == 1 {
			m[i] = ref.Sl{Nil: true}
			rootShape[i] = 1
		} else {
			m[i] = ref.Sl{Start: 1, End: n + 1, Step: 1}
			rootShape[i] = n + 2
		}
	}
	return rootShape, m, ToSlices(m)
}

// stepped: root with axis lengths 2n, sliced [0:2n:2] (range a multiple of the step, see C02 finding on
// leading-axis stepped ranges); length-one axes kept whole.
func stepped(shape []int) (rootShape []int, m []ref.Sl, t []tensor.Slice) {
	m = make([]ref.Sl, len(shape))
	rootShape = make([]int, len(shape))
	for i, n := range shape {
		if n == 1 {
			m[i] = ref.Sl{Nil: true}
			rootShape[i] = 1
		} else {
			m[i] = ref.Sl{Start: 0, End: 2 * n, Step: 2}
			rootShape[i] = 2 * n
		}
	}
	return rootShape, m, ToSlices(m)
}

// Build constructs a tensor of element type d whose logical content is vals (row-major over shape) in the
// given layout. It returns ErrNA when the layout does not exist for the shape (e.g. transposes of rank<2).
// The construction uses only New/Slice/T (decided by C01-C03) and argument combinations those checks show
// to be sound; the result is verified by an At sweep (VerifyLogical) by the callers that need it.
func Build(d ref.DT, shape []int, vals []interface{}, layout string) (b *Built, err error) {
	defer func() {
		if p := recover(); p != nil {
			if s, ok := p.(string); ok && strings.HasPrefix(s, "atlas:") {
				panic(p)
			}
			b, err = nil, fmt.Errorf("%w: %v", ErrLibPanic, p)
		}
	}()
	return build(d, shape, vals, layout)
}

// ErrLibPanic: the library panicked while constructing the layout (the layout is then unusable as an operand;
// whether the panic itself violates a property is decided by the check that owns that operation).
var ErrLibPanic = errors.New("library panicked while building the layout")

func build(d ref.DT, shape []int, vals []interface{}, layout string) (*Built, error) {
	r := len(shape)
	if len(vals) != ref.Prod(shape) {
		panic("atlas: vals/shape mismatch")
	}
	b := &Built{DT: d, Layout: layout, Vals: vals}
	mustView := func(v tensor.View, err error) *tensor.Dense {
		if err != nil {
			panic(fmt.Sprintf("atlas: %s of %v: %v", layout, shape, err))
		}
		return v.(*tensor.Dense)
	}
	needRank := func(k int) error {
		if r < k {
			return ErrNA
		}
		return nil
	}
	if strings.HasPrefix(layout, "D") {
		// "D<layout>": the same layout built on a DIRTY pool - earlier, perfectly legal use has handed *Dense objects back
		// to the library (a lazily transposed tensor of the reversed shape, a row view, a masked tensor), so the
		// constructors below draw recycled objects. A differential oracle: everything must be as from a clean pool.
		dirtyPool(d, shape)
		nb, err := build(d, shape, vals, strings.TrimPrefix(layout, "D"))
		if nb != nil {
			nb.Layout = layout
		}
		return nb, err
	}
	fort := strings.HasPrefix(layout, "F")
	base := strings.TrimPrefix(layout, "F")
	if layout == "Fc" {
		base = "c"
	}
	rootV := func(s []int) ref.View {
		if fort {
			return ref.RootF(s)
		}
		return ref.RootC(s)
	}
	switch base {
	case "C", "", "c":
		if r == 0 {
			if fort {
				return nil, ErrNA
			}
		}
		if fort && r < 2 {
			return nil, ErrNA
		}
		b.RootT, b.Root = newRoot(d, shape, fort, base == "c")
		b.T = b.RootT
		b.View = rootV(shape)
	case "T":
		if err := needRank(2); err != nil {
			return nil, err
		}
		rs := rev(shape)
		b.RootT, b.Root = newRoot(d, rs, fort, false)
		b.T = b.RootT
		if err := b.T.T(); err != nil {
			panic(err)
		}
		b.View = rootV(rs).Permute(ref.Reversal(r))
	case "S":
		if err := needRank(1); err != nil {
			return nil, err
		}
		if fort && r < 2 {
			return nil, ErrNA
		}
		rs, ms, ts := interior(shape)
		b.RootT, b.Root = newRoot(d, rs, fort, false)
		b.T = mustView(b.RootT.Slice(ts...))
		b.View, _, _ = rootV(rs).Slice(ms)
	case "R": // partial slice list: only the leading axis is sliced (rows 1..n of a root with n+2 rows), fewer slices than axes
		if err := needRank(2); err != nil {
			return nil, err
		}
		if shape[0] < 2 {
			return nil, ErrNA
		}
		rs := ref.CopyInts(shape)
		rs[0] += 2
		b.RootT, b.Root = newRoot(d, rs, fort, false)
		b.T = mustView(b.RootT.Slice(tensor.S(1, shape[0]+1)))
		ms := make([]ref.Sl, r)
		ms[0] = ref.Sl{Start: 1, End: shape[0] + 1, Step: 1}
		for i := 1; i < r; i++ {
			ms[i] = ref.Sl{Nil: true}
		}
		b.View, _, _ = rootV(rs).Slice(ms)
	case "L": // only the LAST axis is sliced (columns 1..n of a root with n+2 columns): contiguous for a column-major root
		if err := needRank(2); err != nil {
			return nil, err
		}
		if shape[r-1] < 2 {
			return nil, ErrNA
		}
		rs := ref.CopyInts(shape)
		rs[r-1] += 2
		b.RootT, b.Root = newRoot(d, rs, fort, false)
		ms := make([]ref.Sl, r)
		ts := make([]tensor.Slice, r)
		for i := 0; i < r-1; i++ {
			ms[i] = ref.Sl{Nil: true}
		}
		ms[r-1] = ref.Sl{Start: 1, End: shape[r-1] + 1, Step: 1}
		ts[r-1] = tensor.S(1, shape[r-1]+1)
		b.T = mustView(b.RootT.Slice(ts...))
		b.View, _, _ = rootV(rs).Slice(ms)
	case "SS":
		if err := needRank(1); err != nil {
			return nil, err
		}
		rs, ms, ts := stepped(shape)
		b.RootT, b.Root = newRoot(d, rs, false, false)
		b.T = mustView(b.RootT.Slice(ts...))
		b.View, _, _ = ref.RootC(rs).Slice(ms)
	case "ST": // slice of a lazily transposed root
		if err := needRank(2); err != nil {
			return nil, err
		}
		ps, ms, ts := interior(shape)
		rs := rev(ps)
		b.RootT, b.Root = newRoot(d, rs, false, false)
		if err := b.RootT.T(); err != nil {
			panic(err)
		}
		b.T = mustView(b.RootT.Slice(ts...))
		b.View, _, _ = ref.RootC(rs).Permute(ref.Reversal(r)).Slice(ms)
	case "TS": // lazy transpose of a slice
		if err := needRank(2); err != nil {
			return nil, err
		}
		rshape := rev(shape)
		rs, ms, ts := interior(rshape)
		b.RootT, b.Root = newRoot(d, rs, false, false)
		b.T = mustView(b.RootT.Slice(ts...))
		v, _, _ := ref.RootC(rs).Slice(ms)
		if !ref.EqInts(b.T.Shape(), rshape) {
			return nil, ErrNA
		}
		if err := b.T.T(); err != nil {
			panic(err)
		}
		b.View = v.Permute(ref.Reversal(r))
	case "M", "Cl": // materialisation / clone of a sliced view
		src, err := Build(d, shape, vals, map[bool]string{false: "S", true: "FS"}[fort])
		if err != nil {
			return nil, err
		}
		var m *tensor.Dense
		if base == "M" {
			m = src.T.Materialize().(*tensor.Dense)
		} else {
			m = src.T.Clone().(*tensor.Dense)
		}
		b.T = m
		b.RootT = m
		b.Root = m.Data()
		if reflect.TypeOf(b.Root).Kind() != reflect.Slice { // scalar-equivalent: Data() returns the value
			return nil, ErrNA
		}
		// the copy's cell map is read from its own access pattern over its own storage (a Clone of a view keeps
		// the view's strides over a copy of the window) and validated by reading the values back
		b.View = ref.View{Shape: ref.CopyInts(m.Shape())}
		cells, ok := b.APCells()
		if !ok || !ref.EqInts(m.Shape(), shape) {
			return nil, ErrNA
		}
		b.View.Cell = cells
		if err := b.VerifyLogical(); err != nil {
			return nil, err
		}
		return b, nil
	default:
		panic("atlas: unknown layout " + layout)
	}
	if !ref.EqInts(b.T.Shape(), shape) || !ref.EqInts(b.View.Shape, shape) {
		return nil, ErrNA // e.g. the library turned the view into a scalar or dropped an axis
	}
	b.Fill()
	return b, nil
}

// Fill writes the logical values into the root cells the model says the view denotes, poison elsewhere.
func (b *Built) Fill() {
	n := ref.SliceLen(b.Root)
	for c := 0; c < n; c++ {
		ref.SliceSet(b.Root, c, Poison(b.DT, c))
	}
	for i, c := range b.View.Cell {
		ref.SliceSet(b.Root, c, b.Vals[i])
	}
}

// Logical reads every coordinate of t with At, row-major.
func Logical(t *tensor.Dense) ([]interface{}, error) {
	if CheckInvariants {
		if msg := MetaInvariant(t); msg != "" {
			return nil, fmt.Errorf("metadata invariant violated: %s", msg)
		}
		if msg := OrderInvariant(t); msg != "" {
			return nil, fmt.Errorf("metadata invariant violated: %s", msg)
		}
	}
	shape := t.Shape()
	n := ref.Prod(shape)
	out := make([]interface{}, 0, n)
	var err error
	ref.ForCoords(shape, func(c []int) {
		if err != nil {
			return
		}
		v, e := t.At(c...)
		if e != nil {
			err = fmt.Errorf("At(%v): %v", c, e)
			return
		}
		out = append(out, v)
	})
	return out, err
}

// VerifyLogical checks that the built tensor reads back as the requested values.
func (b *Built) VerifyLogical() error {
	if !ref.EqInts(b.T.Shape(), b.View.Shape) {
		return fmt.Errorf("atlas-mismatch: layout %s shape %v, model %v", b.Layout, b.T.Shape(), b.View.Shape)
	}
	got, err := Logical(b.T)
	if err != nil {
		return fmt.Errorf("atlas-mismatch: %v", err)
	}
	for i := range got {
		if !ref.Same(got[i], b.Vals[i]) {
			return fmt.Errorf("atlas-mismatch: layout %s shape %v element %d reads %s, built as %s", b.Layout, b.View.Shape, i, ref.Fmt(got[i]), ref.Fmt(b.Vals[i]))
		}
	}
	return nil
}

// Snap is a snapshot of a tensor's root storage and private metadata, for frame conditions.
type Snap struct {
	root []byte
	meta string
}

// RootBytes views a []T as bytes (string / pointer elements compare by header, which is what "unchanged" means).
func RootBytes(root interface{}) []byte {
	v := reflect.ValueOf(root)
	n := v.Len()
	if n == 0 {
		return nil
	}
	sz := int(v.Type().Elem().Size())
	return unsafe.Slice((*byte)(v.Index(0).Addr().UnsafePointer()), n*sz)
}

func (b *Built) Snapshot() Snap {
	return Snap{root: append([]byte{}, RootBytes(b.Root)...), meta: MetaString(b.T)}
}

// ChangedCells returns the root cells that differ from the snapshot.
func (b *Built) ChangedCells(s Snap) []int {
	cur := RootBytes(b.Root)
	if bytes.Equal(cur, s.root) {
		return nil
	}
	var out []int
	sz := b.DT.Size
	for i := 0; i*sz < len(cur); i++ {
		if !bytes.Equal(cur[i*sz:(i+1)*sz], s.root[i*sz:(i+1)*sz]) {
			out = append(out, i)
		}
	}
	return out
}

// Changed describes what differs from the snapshot ("" when nothing does).
func (b *Built) Changed(s Snap) string {
	var diffs []string
	cells := b.ChangedCells(s)
	for i, c := range cells {
		if i >= 4 {
			diffs = append(diffs, fmt.Sprintf("(+%d more cells)", len(cells)-4))
			break
		}
		diffs = append(diffs, fmt.Sprintf("root[%d]->%s", c, ref.Fmt(ref.SliceGet(b.Root, c))))
	}
	if m := MetaString(b.T); m != s.meta {
		diffs = append(diffs, "meta: "+s.meta+" -> "+m)
	}
	return strings.Join(diffs, "; ")
}

// RestoreRoot writes the snapshot back.
func (b *Built) RestoreRoot(s Snap) { copy(RootBytes(b.Root), s.root) }

// MetaString renders the private metadata of a tensor canonically (no pointers).
func MetaString(t *tensor.Dense) string {
	m := tensor.VerifMetaOf(t)
	var sb strings.Builder
	fmt.Fprintf(&sb, "shape=%v strides=%v o=%d", m.Shape, m.Strides, m.O)
	if !m.OldZero {
		fmt.Fprintf(&sb, " old=%v/%v/o%d", m.OldShape, m.OldStrides, m.OldO)
	}
	if m.HasTW {
		fmt.Fprintf(&sb, " tw=%v", m.TransposeWith)
	}
	fmt.Fprintf(&sb, " view=%v rawlen=%d flag=%d", m.ViewOf != 0, m.RawLen, m.Flag)
	if m.Mask != nil {
		fmt.Fprintf(&sb, " mask=%s soft=%v", maskStr(m.Mask), m.MaskIsSoft)
	}
	return sb.String()
}

func maskStr(m []bool) string {
	b := make([]byte, len(m))
	for i, x := range m {
		if x {
			b[i] = '1'
		} else {
			b[i] = '0'
		}
	}
	return string(b)
}

// StateKey is the canonical key of a tensor state: element width, metadata and window offset relative to a
// root pointer (for BFS dedup and the `states` count).
func StateKey(t *tensor.Dense, rootPtr uintptr) string {
	m := tensor.VerifMetaOf(t)
	off := int64(-1)
	if rootPtr != 0 && m.RawPtr >= rootPtr {
		off = int64(m.RawPtr - rootPtr)
	}
	return fmt.Sprintf("w%d|%s|off=%d", m.ElSize, MetaString(t), off)
}

// Fingerprint = metadata + raw window bytes (binary).
func Fingerprint(t *tensor.Dense) string {
	var buf bytes.Buffer
	buf.WriteString(MetaString(t))
	m := tensor.VerifMetaOf(t)
	binary.Write(&buf, binary.LittleEndian, uint64(m.RawPtr))
	buf.Write(tensor.VerifRaw(t))
	return buf.String()
}

// RootPtr returns the address of the first element of a []T.
func RootPtr(root interface{}) uintptr {
	v := reflect.ValueOf(root)
	if v.Len() == 0 {
		return 0
	}
	return v.Index(0).Addr().Pointer()
}

// SnapMeta returns the metadata string recorded in a snapshot.
func SnapMeta(s Snap) string { return s.meta }

// APCells computes, from the tensor's own (public) shape/strides and the position of its storage window in the
// root, the root cell each logical coordinate addresses: window offset + sum(coord*stride). ok=false when the
// metadata cannot be interpreted (stride count mismatch, out-of-root cells).
func (b *Built) APCells() (cells []int, ok bool) {
	m := tensor.VerifMetaOf(b.T)
	rp := RootPtr(b.Root)
	if m.ElSize == 0 || m.RawPtr < rp {
		return nil, false
	}
	off := int(m.RawPtr-rp) / m.ElSize
	shape, strides := m.Shape, m.Strides
	n := ref.SliceLen(b.Root)
	ok = true
	ref.ForCoords(shape, func(c []int) {
		at := off
		for i := range c {
			var st int
			switch {
			case len(strides) == len(shape):
				st = strides[i]
			case len(strides) == 1 && tensor.Shape(shape).IsVector():
				st = strides[0]
			case len(strides) == 0 && ref.Prod(shape) == 1:
				st = 0
			default:
				ok = false
			}
			at += c[i] * st
		}
		if at < 0 || at >= n {
			ok = false
		}
		cells = append(cells, at)
	})
	return cells, ok
}

// MetaInvariant: size = product of the shape, and shape and strides address only distinct in-bounds storage positions
// (the metadata invariant of C13, evaluated on every tensor any check reads through Logical).
func MetaInvariant(t *tensor.Dense) string {
	shape := t.Shape()
	if t.Size() != ref.Prod(shape) {
		return fmt.Sprintf("Size()=%d but shape %v", t.Size(), shape)
	}
	m := tensor.VerifMetaOf(t)
	if m.ElSize == 0 {
		return ""
	}
	win := m.RawLen / m.ElSize
	strides := m.Strides
	if len(shape) == 0 || ref.Prod(shape) <= 1 {
		if win < 1 && ref.Prod(shape) == 1 {
			return "one element but empty storage window"
		}
		return ""
	}
	if len(strides) != len(shape) && !(len(strides) == 1 && tensor.Shape(shape).IsVector()) {
		return fmt.Sprintf("%d strides for shape %v", len(strides), shape)
	}
	seen := map[int]bool{}
	bad := ""
	ref.ForCoords(shape, func(c []int) {
		if bad != "" {
			return
		}
		at := 0
		for i := range c {
			st := strides[0]
			if len(strides) == len(shape) {
				st = strides[i]
			}
			at += c[i] * st
		}
		if at < 0 || at >= win {
			bad = fmt.Sprintf("coordinate %v maps to offset %d outside the storage window of %d elements (shape %v strides %v)", c, at, win, shape, strides)
			return
		}
		if seen[at] {
			bad = fmt.Sprintf("two coordinates map to offset %d (shape %v strides %v)", at, shape, strides)
		}
		seen[at] = true
	})
	return bad
}

// OrderInvariant: the data-order flags agree with the strides. A tensor that is not marked transposed and whose
// strides are exactly the canonical row-major (column-major) strides of its shape - and not also the other ones - must
// report IsRowMajor (IsColMajor): kernels choose their traversal from the flag alone.
func OrderInvariant(t *tensor.Dense) string {
	shape := t.Shape()
	m := tensor.VerifMetaOf(t)
	// a tensor the library will process as a plain array (RequiresIterator() == false) must be one: its storage window
	// holds exactly its elements, and its strides are the canonical strides of its order flag
	// (not judged for a non-view that is merely still flagged transposed with nothing pending - bookkeeping left by
	// Reshape after T or by UT of a SafeT copy - which no stated property reads through a raw kernel)
	if size := ref.Prod(shape); size > 1 && m.ElSize > 0 && !t.RequiresIterator() && !(m.O.IsTransposed() && m.ViewOf == 0) {
		if win := m.RawLen / m.ElSize; win != size {
			return fmt.Sprintf("RequiresIterator() is false but the storage window holds %d elements for %d logical ones (shape %v strides %v)", win, size, shape, m.Strides)
		}
		if len(m.Strides) == len(shape) {
			want := tensor.Shape(shape).CalcStrides()
			if m.O.IsColMajor() {
				want = tensor.Shape(shape).CalcStridesColMajor()
			}
			for i, n := range shape {
				if n != 1 && m.Strides[i] != want[i] {
					return fmt.Sprintf("RequiresIterator() is false but strides %v are not the canonical strides %v of shape %v in its data order", m.Strides, want, shape)
				}
			}
		}
	}
	// judged only when no transpose is pending: a lazily transposed tensor legitimately carries permuted strides
	// under its original order flag
	// ... and only for tensors that own their storage and are flagged contiguous (views go through iterators)
	if len(shape) < 2 || len(m.Strides) != len(shape) || !m.OldZero || m.ViewOf != 0 || !m.O.IsContiguous() {
		return ""
	}
	if m.O.IsTransposed() {
		return "" // a transposed flag with nothing pending (left by Reshape after T, by UT after a no-op SafeT, ...) is not judged
	}
	// the stride of a length-one axis addresses nothing: compare on the other axes only
	eff := func(want []int) bool {
		for i, n := range shape {
			if n != 1 && m.Strides[i] != want[i] {
				return false
			}
		}
		return true
	}
	rm := eff(tensor.Shape(shape).CalcStrides())
	cm := eff(tensor.Shape(shape).CalcStridesColMajor())
	switch {
	case rm && !cm && m.O.IsColMajor():
		return fmt.Sprintf("row-major strides %v for shape %v but the tensor is flagged column-major", m.Strides, shape)
	case cm && !rm && !m.O.IsColMajor():
		return fmt.Sprintf("column-major strides %v for shape %v but the tensor is flagged row-major", m.Strides, shape)
	}
	return ""
}

// CheckInvariants makes Logical evaluate MetaInvariant and OrderInvariant on every tensor it reads.
var CheckInvariants = true
