// Package ref is the reference model: boring n-d arrays of interface{} elements in row-major coordinate
// order, and per-element-type scalar semantics defined once, generically, with Go's own operators.
package ref

import (
	"fmt"
	"math"
	"reflect"
	"unsafe"

	"gorgonia.org/tensor"
)

type Class int

const (
	CBool Class = iota
	CInt
	CUint
	CFloat
	CComplex
	CString
	CUintptr
	CPtr
)

// DT describes one element type.
type DT struct {
	Name  string
	D     tensor.Dtype
	Size  int
	Class Class
	Bits  int
}

func (d DT) String() string { return d.Name }
func (d DT) IsNumber() bool {
	return d.Class == CInt || d.Class == CUint || d.Class == CFloat || d.Class == CComplex
}
func (d DT) IsOrd() bool {
	return d.Class == CInt || d.Class == CUint || d.Class == CFloat || d.Class == CString
}
func (d DT) IsOrdNum() bool  { return d.Class == CInt || d.Class == CUint || d.Class == CFloat }
func (d DT) IsFloat() bool   { return d.Class == CFloat }
func (d DT) IsFloatCx() bool { return d.Class == CFloat || d.Class == CComplex }
func (d DT) IsInteger() bool { return d.Class == CInt || d.Class == CUint }
func (d DT) IsSigned() bool  { return d.Class == CInt || d.Class == CFloat || d.Class == CComplex }

var (
	Bool       = DT{"bool", tensor.Bool, 1, CBool, 8}
	Int        = DT{"int", tensor.Int, 8, CInt, 64}
	Int8       = DT{"int8", tensor.Int8, 1, CInt, 8}
	Int16      = DT{"int16", tensor.Int16, 2, CInt, 16}
	Int32      = DT{"int32", tensor.Int32, 4, CInt, 32}
	Int64      = DT{"int64", tensor.Int64, 8, CInt, 64}
	Uint       = DT{"uint", tensor.Uint, 8, CUint, 64}
	Uint8      = DT{"uint8", tensor.Uint8, 1, CUint, 8}
	Uint16     = DT{"uint16", tensor.Uint16, 2, CUint, 16}
	Uint32     = DT{"uint32", tensor.Uint32, 4, CUint, 32}
	Uint64     = DT{"uint64", tensor.Uint64, 8, CUint, 64}
	Float32    = DT{"float32", tensor.Float32, 4, CFloat, 32}
	Float64    = DT{"float64", tensor.Float64, 8, CFloat, 64}
	Complex64  = DT{"complex64", tensor.Complex64, 8, CComplex, 64}
	Complex128 = DT{"complex128", tensor.Complex128, 16, CComplex, 128}
	String     = DT{"string", tensor.String, 16, CString, 128}
	Uintptr    = DT{"uintptr", tensor.Uintptr, 8, CUintptr, 64}
	UnsafePtr  = DT{"unsafe.Pointer", tensor.UnsafePointer, 8, CPtr, 64}

	ALL18 = []DT{Bool, Int, Int8, Int16, Int32, Int64, Uint, Uint8, Uint16, Uint32, Uint64, Float32, Float64, Complex64, Complex128, String, Uintptr, UnsafePtr}
	NUM14 = []DT{Int, Int8, Int16, Int32, Int64, Uint, Uint8, Uint16, Uint32, Uint64, Float32, Float64, Complex64, Complex128}
	ORDN  = []DT{Int, Int8, Int16, Int32, Int64, Uint, Uint8, Uint16, Uint32, Uint64, Float32, Float64}
	FC4   = []DT{Float32, Float64, Complex64, Complex128}
	W6    = []DT{Uint8, Int16, Float32, Int64, Complex128, String}
)

func ByName(n string) DT {
	for _, d := range ALL18 {
		if d.Name == n {
			return d
		}
	}
	panic("unknown dtype " + n)
}

// keep-alive tables for string / pointer element types (the library stores their headers in pointer-free byte slices)
var strTable [4096]string
var ptrTable [4096]int64

func init() {
	for i := range strTable {
		strTable[i] = fmt.Sprintf("s%04d", i)
		ptrTable[i] = int64(i)
	}
}

// Code returns the value of element type d that represents the small integer k (identity code of storage cell k,
// or the number k in arithmetic value sets). Injective for |k| < 2^(bits-1) on numeric types, mod 4096 on
// string / pointer types, mod 2 on bool.
func (d DT) Code(k int) interface{} {
	switch d.Name {
	case "bool":
		return k%2 != 0
	case "int":
		return int(k)
	case "int8":
		return int8(k)
	case "int16":
		return int16(k)
	case "int32":
		return int32(k)
	case "int64":
		return int64(k)
	case "uint":
		return uint(k)
	case "uint8":
		return uint8(k)
	case "uint16":
		return uint16(k)
	case "uint32":
		return uint32(k)
	case "uint64":
		return uint64(k)
	case "float32":
		return float32(k)
	case "float64":
		return float64(k)
	case "complex64":
		return complex(float32(k), float32(0))
	case "complex128":
		return complex(float64(k), float64(0))
	case "string":
		return strTable[((k%4096)+4096)%4096]
	case "uintptr":
		return uintptr(k)
	case "unsafe.Pointer":
		return unsafe.Pointer(&ptrTable[((k%4096)+4096)%4096])
	}
	panic("bad dtype")
}

// Period is the modulus at which Code stops being injective for this type (0 = effectively never).
func (d DT) Period() int {
	switch d.Name {
	case "bool":
		return 2
	case "int8", "uint8":
		return 256
	case "string", "unsafe.Pointer":
		return 4096
	case "int16", "uint16":
		return 65536
	}
	return 0
}

// MakeSlice makes a []T of length n.
func (d DT) MakeSlice(n int) interface{} {
	return reflect.MakeSlice(reflect.SliceOf(d.D.Type), n, n).Interface()
}

// Zero returns the zero value of the type.
func (d DT) Zero() interface{} { return reflect.Zero(d.D.Type).Interface() }

func SliceLen(s interface{}) int { return reflect.ValueOf(s).Len() }
func SliceGet(s interface{}, i int) interface{} {
	switch x := s.(type) {
	case []float64:
		return x[i]
	case []float32:
		return x[i]
	case []int:
		return x[i]
	case []uint8:
		return x[i]
	case []bool:
		return x[i]
	}
	return reflect.ValueOf(s).Index(i).Interface()
}
func SliceSet(s interface{}, i int, v interface{}) {
	switch x := s.(type) {
	case []float64:
		x[i] = v.(float64)
		return
	case []float32:
		x[i] = v.(float32)
		return
	case []int:
		x[i] = v.(int)
		return
	case []uint8:
		x[i] = v.(uint8)
		return
	case []bool:
		x[i] = v.(bool)
		return
	}
	reflect.ValueOf(s).Index(i).Set(reflect.ValueOf(v))
}

// FillCodes sets s[i] = Code(base+i).
func (d DT) FillCodes(s interface{}, base int) {
	n := SliceLen(s)
	for i := 0; i < n; i++ {
		SliceSet(s, i, d.Code(base+i))
	}
}

// CopySlice returns a copy of a []T.
func CopySlice(s interface{}) interface{} {
	v := reflect.ValueOf(s)
	c := reflect.MakeSlice(v.Type(), v.Len(), v.Len())
	reflect.Copy(c, v)
	return c.Interface()
}

// Same reports bit-identity of two element values of the same Go type (NaN == NaN with equal payload class,
// +0 != -0).
func Same(a, b interface{}) bool {
	switch x := a.(type) {
	case float64:
		y, ok := b.(float64)
		return ok && (math.Float64bits(x) == math.Float64bits(y) || (x != x && y != y))
	case float32:
		y, ok := b.(float32)
		return ok && (math.Float32bits(x) == math.Float32bits(y) || (x != x && y != y))
	case complex128:
		y, ok := b.(complex128)
		return ok && Same(real(x), real(y)) && Same(imag(x), imag(y))
	case complex64:
		y, ok := b.(complex64)
		return ok && Same(real(x), real(y)) && Same(imag(x), imag(y))
	}
	return a == b
}

// Close reports equality within the tolerance the design allows for transcendental functions / float products.
func Close(a, b interface{}) bool {
	switch x := a.(type) {
	case float64:
		y, ok := b.(float64)
		return ok && closeF(x, y, 1e-12)
	case float32:
		y, ok := b.(float32)
		return ok && closeF(float64(x), float64(y), 1e-5)
	case complex128:
		y, ok := b.(complex128)
		return ok && closeC(x, y, 1e-12)
	case complex64:
		y, ok := b.(complex64)
		return ok && closeC(complex128(x), complex128(y), 1e-5)
	}
	return a == b
}

func closeC(x, y complex128, rel float64) bool {
	if closeF(real(x), real(y), rel) && closeF(imag(x), imag(y), rel) {
		return true
	}
	// relative to the modulus (components of a complex product may cancel)
	if math.IsNaN(real(x)) || math.IsNaN(imag(x)) || math.IsInf(real(x), 0) || math.IsInf(imag(x), 0) {
		return false
	}
	d := math.Hypot(real(x)-real(y), imag(x)-imag(y))
	m := math.Max(math.Hypot(real(x), imag(x)), math.Hypot(real(y), imag(y)))
	return d <= rel*m
}

func closeF(x, y, rel float64) bool {
	if x != x || y != y {
		return x != x && y != y
	}
	if math.IsInf(x, 0) || math.IsInf(y, 0) {
		return x == y
	}
	if x == y {
		return true
	}
	d := math.Abs(x - y)
	m := math.Max(math.Abs(x), math.Abs(y))
	return d <= rel*m || d <= 1e-300
}

// Fmt renders an element value deterministically (pointers are rendered as table index).
func Fmt(v interface{}) string {
	switch x := v.(type) {
	case unsafe.Pointer:
		if x == nil {
			return "ptr(nil)"
		}
		base := uintptr(unsafe.Pointer(&ptrTable[0]))
		off := (uintptr(x) - base) / 8
		if uintptr(x) >= base && off < 4096 {
			return fmt.Sprintf("ptr#%d", off)
		}
		return "ptr(?)"
	case float64:
		if x == 0 && math.Signbit(x) {
			return "-0"
		}
		return fmt.Sprintf("%v", x)
	case float32:
		if x == 0 && math.Signbit(float64(x)) {
			return "-0"
		}
		return fmt.Sprintf("%v", x)
	case string:
		return fmt.Sprintf("%q", x)
	case nil:
		return "<nil>"
	}
	return fmt.Sprintf("%v", v)
}

func FmtEls(el []interface{}) string {
	s := "["
	for i, e := range el {
		if i > 0 {
			s += " "
		}
		if i >= 40 {
			s += "…"
			break
		}
		s += Fmt(e)
	}
	return s + "]"
}

// FromFloat converts f to the element type d (float and complex types only; complex gets a zero imaginary part).
func FromFloat(d DT, f float64) interface{} {
	switch d.Name {
	case "float32":
		return float32(f)
	case "float64":
		return f
	case "complex64":
		return complex(float32(f), float32(0))
	case "complex128":
		return complex(f, 0)
	}
	panic("FromFloat: " + d.Name)
}
