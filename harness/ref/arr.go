package ref

import (
	"errors"
	"fmt"
)

func Prod(s []int) int {
	p := 1
	for _, d := range s {
		p *= d
	}
	return p
}

func CopyInts(s []int) []int { return append([]int{}, s...) }

func EqInts(a, b []int) bool {
	if len(a) != len(b) {
		return false
	}
	for i := range a {
		if a[i] != b[i] {
			return false
		}
	}
	return true
}

// ForCoords calls f with every coordinate of shape in row-major order (the slice is reused).
func ForCoords(shape []int, f func(c []int)) {
	n := Prod(shape)
	if n == 0 {
		return
	}
	c := make([]int, len(shape))
	for i := 0; i < n; i++ {
		f(c)
		for ax := len(shape) - 1; ax >= 0; ax-- {
			c[ax]++
			if c[ax] < shape[ax] {
				break
			}
			c[ax] = 0
		}
	}
}

// RowRank: rank of coordinate c in row-major order.
func RowRank(shape, c []int) int {
	r := 0
	for i := range shape {
		r = r*shape[i] + c[i]
	}
	return r
}

// ColRank: rank of coordinate c in column-major order.
func ColRank(shape, c []int) int {
	r := 0
	for i := len(shape) - 1; i >= 0; i-- {
		r = r*shape[i] + c[i]
	}
	return r
}

// View is the model of a tensor as a window onto a root: Cell[i] is the root cell id of the element at the
// i-th coordinate in row-major coordinate order.
type View struct {
	Shape []int
	Cell  []int
}

func (v View) Clone() View { return View{CopyInts(v.Shape), CopyInts(v.Cell)} }
func (v View) Size() int   { return len(v.Cell) }
func (v View) At(c []int) int {
	return v.Cell[RowRank(v.Shape, c)]
}

// RootC: root of given shape laid out row-major over cells 0..n-1.
func RootC(shape []int) View {
	v := View{CopyInts(shape), make([]int, Prod(shape))}
	for i := range v.Cell {
		v.Cell[i] = i
	}
	return v
}

// RootF: root of given shape laid out column-major over cells 0..n-1.
func RootF(shape []int) View {
	v := View{CopyInts(shape), make([]int, Prod(shape))}
	i := 0
	ForCoords(shape, func(c []int) {
		v.Cell[i] = ColRank(shape, c)
		i++
	})
	return v
}

// Sl is one per-axis slice argument. Nil: whole axis. Single: one index (Start). Otherwise the range.
type Sl struct {
	Nil, Single      bool
	Start, End, Step int
}

func (s Sl) String() string {
	switch {
	case s.Nil:
		return ":"
	case s.Single:
		return fmt.Sprintf("%d", s.Start)
	}
	return fmt.Sprintf("%d:%d:%d", s.Start, s.End, s.Step)
}

// span returns (start, count, step, droppable, err) of one slice argument on an axis of length n, per the
// statement of C02. ErrUnspecified marks arguments the statement neither requires to work nor to fail.
var ErrInvalid = errors.New("invalid slice")
var ErrUnspecified = errors.New("unspecified by the property")

func (s Sl) Span(n int) (start, count, step int, droppable bool, err error) {
	if s.Nil {
		return 0, n, 1, false, nil
	}
	if s.Single {
		if s.Start < 0 || s.Start >= n {
			return 0, 0, 0, false, ErrInvalid
		}
		return s.Start, 1, 1, true, nil
	}
	if s.Start < 0 || s.End < 0 || s.Step < 0 {
		return 0, 0, 0, false, ErrInvalid // negative
	}
	if s.End < s.Start {
		return 0, 0, 0, false, ErrInvalid // reversed
	}
	if s.Start >= n {
		return 0, 0, 0, false, ErrInvalid // start past the axis
	}
	if s.End == s.Start {
		return 0, 0, 0, false, ErrUnspecified // empty range
	}
	end := s.End
	if end > n {
		end = n
	}
	if s.Step == 0 {
		if s.End-s.Start > 1 {
			return 0, 0, 0, false, ErrInvalid // zero step over more than one element
		}
		return s.Start, 1, 1, true, nil
	}
	count = (end - s.Start + s.Step - 1) / s.Step
	return s.Start, count, s.Step, count == 1, nil
}

// Slice applies per-axis slice arguments (fewer than axes allowed; more is invalid). The result keeps every axis;
// drop[i] tells whether axis i may be dropped by the implementation (single index, or cut to length one).
func (v View) Slice(sl []Sl) (out View, drop []bool, err error) {
	if len(sl) > len(v.Shape) {
		return View{}, nil, ErrInvalid
	}
	r := len(v.Shape)
	starts, steps := make([]int, r), make([]int, r)
	shape := make([]int, r)
	drop = make([]bool, r)
	unspec := false
	for ax := 0; ax < r; ax++ {
		s := Sl{Nil: true}
		if ax < len(sl) {
			s = sl[ax]
		}
		st, cnt, sp, d, e := s.Span(v.Shape[ax])
		if e == ErrInvalid {
			return View{}, nil, ErrInvalid
		}
		if e == ErrUnspecified {
			unspec = true
		}
		starts[ax], shape[ax], steps[ax], drop[ax] = st, cnt, sp, d
	}
	if unspec {
		return View{}, nil, ErrUnspecified
	}
	out = View{shape, make([]int, 0, Prod(shape))}
	src := make([]int, r)
	ForCoords(shape, func(c []int) {
		for i := range c {
			src[i] = starts[i] + c[i]*steps[i]
		}
		out.Cell = append(out.Cell, v.At(src))
	})
	return out, drop, nil
}

// Squeeze returns the view with the axes in `which` (all of length 1) removed.
func (v View) DropAxes(which []bool) View {
	var shape []int
	for i, d := range v.Shape {
		if !which[i] {
			shape = append(shape, d)
		}
	}
	if shape == nil {
		shape = []int{}
	}
	return View{shape, CopyInts(v.Cell)}
}

// MatchShape finds which droppable axes were dropped so that the model shape becomes `got`. ok=false if no
// subset of droppable axes explains `got`. When several subsets do (all length-1 axes), cell order is the same.
func MatchDropped(model []int, drop []bool, got []int) (which []bool, ok bool) {
	which = make([]bool, len(model))
	var rec func(i, j int) bool
	rec = func(i, j int) bool {
		if i == len(model) {
			return j == len(got)
		}
		if j < len(got) && model[i] == got[j] {
			which[i] = false
			if rec(i+1, j+1) {
				return true
			}
		}
		if drop[i] && model[i] == 1 {
			which[i] = true
			if rec(i+1, j) {
				return true
			}
			which[i] = false
		}
		return false
	}
	ok = rec(0, 0)
	return
}

// ValidPerm reports whether p is a permutation of 0..r-1.
func ValidPerm(p []int, r int) bool {
	if len(p) != r {
		return false
	}
	seen := make([]bool, r)
	for _, a := range p {
		if a < 0 || a >= r || seen[a] {
			return false
		}
		seen[a] = true
	}
	return true
}

// Permute: result axis i is source axis p[i]; element (c0..ck) of the result is element of the source whose
// coordinate on axis p[i] is c_i.
func (v View) Permute(p []int) View {
	r := len(v.Shape)
	shape := make([]int, r)
	for i := range p {
		shape[i] = v.Shape[p[i]]
	}
	out := View{shape, make([]int, 0, len(v.Cell))}
	src := make([]int, r)
	ForCoords(shape, func(c []int) {
		for i := range c {
			src[p[i]] = c[i]
		}
		out.Cell = append(out.Cell, v.At(src))
	})
	return out
}

// Reversal is the default transposition.
func Reversal(r int) []int {
	p := make([]int, r)
	for i := range p {
		p[i] = r - 1 - i
	}
	return p
}

// Perms returns all permutations of 0..r-1 in lexicographic order.
func Perms(r int) [][]int {
	var out [][]int
	p := make([]int, r)
	used := make([]bool, r)
	var rec func(i int)
	rec = func(i int) {
		if i == r {
			out = append(out, CopyInts(p))
			return
		}
		for a := 0; a < r; a++ {
			if !used[a] {
				used[a] = true
				p[i] = a
				rec(i + 1)
				used[a] = false
			}
		}
	}
	rec(0)
	return out
}

// Shapes returns all shapes of rank exactly r with dims in 1..d.
func Shapes(r, d int) [][]int {
	if r == 0 {
		return [][]int{{}}
	}
	var out [][]int
	s := make([]int, r)
	var rec func(i int)
	rec = func(i int) {
		if i == r {
			out = append(out, CopyInts(s))
			return
		}
		for x := 1; x <= d; x++ {
			s[i] = x
			rec(i + 1)
		}
	}
	rec(0)
	return out
}

// ShapesUpTo: all shapes of rank rmin..rmax with dims in 1..d.
func ShapesUpTo(rmin, rmax, d int) [][]int {
	var out [][]int
	for r := rmin; r <= rmax; r++ {
		out = append(out, Shapes(r, d)...)
	}
	return out
}

// DedupShapes removes duplicates, keeping first occurrences.
func DedupShapes(ss [][]int) [][]int {
	seen := map[string]bool{}
	var out [][]int
	for _, s := range ss {
		k := fmt.Sprint(s)
		if !seen[k] {
			seen[k] = true
			out = append(out, s)
		}
	}
	return out
}

// Arr is a logical array of element values in row-major coordinate order.
type Arr struct {
	DT    DT
	Shape []int
	El    []interface{}
}

func (a Arr) At(c []int) interface{} { return a.El[RowRank(a.Shape, c)] }
func (a Arr) Clone() Arr {
	return Arr{a.DT, CopyInts(a.Shape), append([]interface{}{}, a.El...)}
}

// FromCodes builds an Arr whose i-th element (row-major) is Code(f(i)).
func FromCodes(d DT, shape []int, f func(i int) int) Arr {
	a := Arr{d, CopyInts(shape), make([]interface{}, Prod(shape))}
	for i := range a.El {
		a.El[i] = d.Code(f(i))
	}
	return a
}

// PermuteArr permutes the axes of a logical array.
func (a Arr) Permute(p []int) Arr {
	v := RootC(a.Shape).Permute(p)
	out := Arr{a.DT, v.Shape, make([]interface{}, len(v.Cell))}
	for i, c := range v.Cell {
		out.El[i] = a.El[c]
	}
	return out
}

// Gather builds the logical array a view denotes over a root sequence.
func Gather(d DT, v View, root func(cell int) interface{}) Arr {
	out := Arr{d, CopyInts(v.Shape), make([]interface{}, len(v.Cell))}
	for i, c := range v.Cell {
		out.El[i] = root(c)
	}
	return out
}
