package ref

import (
	"math"
	"math/cmplx"

	"github.com/chewxy/math32"
)

// f32via computes a float32 maths function with the float32 routine the Go ecosystem offers for it (math32), which
// is "the corresponding Go maths routine" for that element type; float64 uses package math.
func powT[T float](a, b T) T {
	if _, ok := interface{}(a).(float32); ok {
		return T(math32.Pow(float32(a), float32(b)))
	}
	return T(math.Pow(float64(a), float64(b)))
}
func modT[T float](a, b T) T {
	if _, ok := interface{}(a).(float32); ok {
		return T(math32.Mod(float32(a), float32(b)))
	}
	return T(math.Mod(float64(a), float64(b)))
}

// One generic definition per scalar operation, instantiated per element type by the Go compiler: the oracle for
// "Go's operator for that element type" (C06, C11, C12) and "the one type-generic definition" (C17).

type integer interface {
	~int | ~int8 | ~int16 | ~int32 | ~int64 | ~uint | ~uint8 | ~uint16 | ~uint32 | ~uint64
}
type float interface{ ~float32 | ~float64 }
type cmplxT interface{ ~complex64 | ~complex128 }
type number interface{ integer | float | cmplxT }
type ordered interface {
	integer | float | ~string | ~uintptr
}

func gAdd[T number](a, b T) T { return a + b }
func gSub[T number](a, b T) T { return a - b }
func gMul[T number](a, b T) T { return a * b }
func gDivI[T integer](a, b T) (T, bool) {
	if b == 0 {
		return 0, false
	}
	return a / b, true
}
func gDivF[T float | cmplxT](a, b T) T { return a / b }
func gModI[T integer](a, b T) (T, bool) {
	if b == 0 {
		return 0, false
	}
	return a % b, true
}
func gLt[T ordered](a, b T) bool  { return a < b }
func gGt[T ordered](a, b T) bool  { return a > b }
func gLte[T ordered](a, b T) bool { return a <= b }
func gGte[T ordered](a, b T) bool { return a >= b }
func gNeg[T number](a T) T        { return -a }
func gSquare[T number](a T) T     { return a * a }
func gCube[T number](a T) T       { return a * a * a }
func gAbsI[T integer](a T) T {
	if a < 0 {
		return -a
	}
	return a
}
func gSignR[T integer | float](a T) T {
	switch {
	case a < 0:
		var m T
		m--
		return m // -1 (wraps to max for unsigned; unsigned never takes this branch)
	case a > 0:
		return 1
	}
	return 0
}
func gMin[T integer | float](a, b T) T {
	if a < b {
		return a
	}
	return b
}
func gMax[T integer | float](a, b T) T {
	if a > b {
		return a
	}
	return b
}
func gClamp[T integer | float](a, lo, hi T) T {
	if a < lo {
		return lo
	}
	if a > hi {
		return hi
	}
	return a
}

// Res is the model's answer for one scalar computation.
type Res struct {
	V      interface{}
	Refuse bool // no Go value exists (integer division by zero …): the library must refuse, not compute
	Approx bool // compare with tolerance (transcendental / library-defined through math)
	Skip   bool // not judged (documented as undefined / not representable)
}

func bin[T integer](op string, a, b T) Res {
	switch op {
	case "Add":
		return Res{V: gAdd(a, b)}
	case "Sub":
		return Res{V: gSub(a, b)}
	case "Mul":
		return Res{V: gMul(a, b)}
	case "Div":
		v, ok := gDivI(a, b)
		return Res{V: v, Refuse: !ok}
	case "Mod":
		v, ok := gModI(a, b)
		return Res{V: v, Refuse: !ok}
	case "Pow":
		f := math.Pow(float64(a), float64(b))
		// judged only where math.Pow of the operands is exactly representable in the type
		if f != f || math.IsInf(f, 0) || f != math.Trunc(f) || math.Abs(f) >= 1<<53 || float64(T(f)) != f {
			return Res{Skip: true}
		}
		return Res{V: T(f)}
	case "MinBetween":
		return Res{V: gMin(a, b)}
	case "MaxBetween":
		return Res{V: gMax(a, b)}
	}
	panic("bad op " + op)
}

func binF[T float](op string, a, b T) Res {
	switch op {
	case "Add":
		return Res{V: gAdd(a, b)}
	case "Sub":
		return Res{V: gSub(a, b)}
	case "Mul":
		return Res{V: gMul(a, b)}
	case "Div":
		return Res{V: gDivF(a, b)}
	case "Mod":
		return Res{V: modT(a, b), Approx: true}
	case "Pow":
		return Res{V: powT(a, b), Approx: true}
	case "MinBetween":
		if a != a || b != b {
			return Res{Skip: true}
		}
		return Res{V: gMin(a, b), Approx: a == b} // equal operands (+0 and -0): either one is the minimum
	case "MaxBetween":
		if a != a || b != b {
			return Res{Skip: true}
		}
		return Res{V: gMax(a, b), Approx: a == b}
	}
	panic("bad op " + op)
}

func binC[T cmplxT](op string, a, b T) Res {
	switch op {
	case "Add":
		return Res{V: gAdd(a, b)}
	case "Sub":
		return Res{V: gSub(a, b)}
	case "Mul":
		return Res{V: gMul(a, b)}
	case "Div":
		return Res{V: gDivF(a, b), Approx: true}
	case "Pow":
		return Res{V: T(cmplx.Pow(complex128(a), complex128(b))), Approx: true}
	}
	return Res{Refuse: true} // Mod / Min / Max are not defined on complex numbers
}

// Arith computes op(a,b) for two values of the same numeric Go type.
func Arith(op string, a, b interface{}) Res {
	switch x := a.(type) {
	case int:
		return bin(op, x, b.(int))
	case int8:
		return bin(op, x, b.(int8))
	case int16:
		return bin(op, x, b.(int16))
	case int32:
		return bin(op, x, b.(int32))
	case int64:
		return bin(op, x, b.(int64))
	case uint:
		return bin(op, x, b.(uint))
	case uint8:
		return bin(op, x, b.(uint8))
	case uint16:
		return bin(op, x, b.(uint16))
	case uint32:
		return bin(op, x, b.(uint32))
	case uint64:
		return bin(op, x, b.(uint64))
	case float32:
		return binF(op, x, b.(float32))
	case float64:
		return binF(op, x, b.(float64))
	case complex64:
		return binC(op, x, b.(complex64))
	case complex128:
		return binC(op, x, b.(complex128))
	}
	return Res{Refuse: true}
}

func cmpO[T ordered](op string, a, b T) Res {
	switch op {
	case "Lt":
		return Res{V: gLt(a, b)}
	case "Gt":
		return Res{V: gGt(a, b)}
	case "Lte":
		return Res{V: gLte(a, b)}
	case "Gte":
		return Res{V: gGte(a, b)}
	case "ElEq":
		return Res{V: a == b}
	case "ElNe":
		return Res{V: a != b}
	}
	panic("bad cmp " + op)
}

// Compare computes the truth value of op(a,b); Refuse for unordered types under ordering comparisons.
func Compare(op string, a, b interface{}) Res {
	switch x := a.(type) {
	case int:
		return cmpO(op, x, b.(int))
	case int8:
		return cmpO(op, x, b.(int8))
	case int16:
		return cmpO(op, x, b.(int16))
	case int32:
		return cmpO(op, x, b.(int32))
	case int64:
		return cmpO(op, x, b.(int64))
	case uint:
		return cmpO(op, x, b.(uint))
	case uint8:
		return cmpO(op, x, b.(uint8))
	case uint16:
		return cmpO(op, x, b.(uint16))
	case uint32:
		return cmpO(op, x, b.(uint32))
	case uint64:
		return cmpO(op, x, b.(uint64))
	case float32:
		return cmpO(op, x, b.(float32))
	case float64:
		return cmpO(op, x, b.(float64))
	case string:
		return cmpO(op, x, b.(string))
	case uintptr:
		return cmpO(op, x, b.(uintptr))
	}
	if op == "ElEq" {
		return Res{V: a == b}
	}
	if op == "ElNe" {
		return Res{V: a != b}
	}
	return Res{Refuse: true}
}

func unI[T integer](op string, a T, signed bool) Res {
	switch op {
	case "Neg":
		return Res{V: gNeg(a)}
	case "Square":
		return Res{V: gSquare(a)}
	case "Cube":
		return Res{V: gCube(a)}
	case "Abs":
		if !signed {
			return Res{V: a}
		}
		return Res{V: gAbsI(a)}
	case "Sign":
		if !signed {
			if a > 0 {
				return Res{V: T(1)}
			}
			return Res{V: T(0)}
		}
		return Res{V: gSignR(a)}
	case "Inv":
		if a == 0 {
			return Res{Refuse: true}
		}
		return Res{V: T(1) / a}
	}
	return Res{Refuse: true} // roots, exp, logs, tanh: float types only
}

// m1 applies the maths routine of the element type: package math for float64, math32 (the float32 port the Go
// ecosystem and the library use) for float32.
func m1[T float](a T, f64 func(float64) float64, f32 func(float32) float32) T {
	if _, ok := interface{}(a).(float32); ok {
		return T(f32(float32(a)))
	}
	return T(f64(float64(a)))
}

func unF[T float](op string, a T) Res {
	switch op {
	case "Neg":
		return Res{V: gNeg(a)}
	case "Square":
		return Res{V: gSquare(a)}
	case "Cube":
		return Res{V: gCube(a)}
	case "Abs":
		return Res{V: m1(a, math.Abs, math32.Abs)}
	case "Sign":
		if a != a {
			return Res{Skip: true}
		}
		return Res{V: gSignR(a), Approx: true} // the sign of a zero is a zero of either sign
	case "Inv":
		return Res{V: T(1) / a}
	case "Sqrt":
		return Res{V: m1(a, math.Sqrt, math32.Sqrt), Approx: true}
	case "Cbrt":
		return Res{V: m1(a, math.Cbrt, math32.Cbrt), Approx: true}
	case "InvSqrt":
		return Res{V: T(1) / m1(a, math.Sqrt, math32.Sqrt), Approx: true}
	case "Exp":
		return Res{V: m1(a, math.Exp, math32.Exp), Approx: true}
	case "Log":
		return Res{V: m1(a, math.Log, math32.Log), Approx: true}
	case "Log2":
		return Res{V: m1(a, math.Log2, math32.Log2), Approx: true}
	case "Log10":
		return Res{V: m1(a, math.Log10, math32.Log10), Approx: true}
	case "Tanh":
		return Res{V: m1(a, math.Tanh, math32.Tanh), Approx: true}
	}
	panic("bad unary " + op)
}

func unC[T cmplxT](op string, a T) Res {
	x := complex128(a)
	switch op {
	case "Neg":
		return Res{V: gNeg(a)}
	case "Square":
		return Res{V: gSquare(a)}
	case "Cube":
		return Res{V: gCube(a), Approx: true}
	case "Inv":
		return Res{V: T(1) / a, Approx: true}
	case "Sqrt":
		return Res{V: T(cmplx.Sqrt(x)), Approx: true}
	case "Exp":
		return Res{V: T(cmplx.Exp(x)), Approx: true}
	case "Log":
		return Res{V: T(cmplx.Log(x)), Approx: true}
	case "Tanh":
		return Res{V: T(cmplx.Tanh(x)), Approx: true}
	}
	return Res{Skip: true} // other unary functions on complex numbers: library-specific, not judged
}

// Unary computes op(a).
func Unary(op string, a interface{}) Res {
	switch x := a.(type) {
	case int:
		return unI(op, x, true)
	case int8:
		return unI(op, x, true)
	case int16:
		return unI(op, x, true)
	case int32:
		return unI(op, x, true)
	case int64:
		return unI(op, x, true)
	case uint:
		return unI(op, x, false)
	case uint8:
		return unI(op, x, false)
	case uint16:
		return unI(op, x, false)
	case uint32:
		return unI(op, x, false)
	case uint64:
		return unI(op, x, false)
	case float32:
		return unF(op, x)
	case float64:
		return unF(op, x)
	case complex64:
		return unC(op, x)
	case complex128:
		return unC(op, x)
	}
	return Res{Refuse: true}
}

// Clamp computes clamp(a, lo, hi) for ordered numeric types.
func Clamp(a, lo, hi interface{}) Res {
	switch x := a.(type) {
	case int:
		return Res{V: gClamp(x, lo.(int), hi.(int))}
	case int8:
		return Res{V: gClamp(x, lo.(int8), hi.(int8))}
	case int16:
		return Res{V: gClamp(x, lo.(int16), hi.(int16))}
	case int32:
		return Res{V: gClamp(x, lo.(int32), hi.(int32))}
	case int64:
		return Res{V: gClamp(x, lo.(int64), hi.(int64))}
	case uint:
		return Res{V: gClamp(x, lo.(uint), hi.(uint))}
	case uint8:
		return Res{V: gClamp(x, lo.(uint8), hi.(uint8))}
	case uint16:
		return Res{V: gClamp(x, lo.(uint16), hi.(uint16))}
	case uint32:
		return Res{V: gClamp(x, lo.(uint32), hi.(uint32))}
	case uint64:
		return Res{V: gClamp(x, lo.(uint64), hi.(uint64))}
	case float32:
		if x != x {
			// a NaN is neither below the lower nor above the upper bound: clamping leaves it (what the comparisons the
			// operation is defined by say, and the only answer that does not depend on which kernel walks the operand)
			return Res{V: x}
		}
		return Res{V: gClamp(x, lo.(float32), hi.(float32))}
	case float64:
		if x != x {
			return Res{V: x}
		}
		return Res{V: gClamp(x, lo.(float64), hi.(float64))}
	}
	return Res{Refuse: true}
}

// One returns the value 1 / 0 of the operand's type (same-type comparison results).
func BoolAs(d DT, b bool) interface{} {
	if b {
		return d.Code(1)
	}
	return d.Code(0)
}

// ToF64 converts a numeric element to float64 (C17 cross-type agreement, ToMat64).
func ToF64(v interface{}) (float64, bool) {
	switch x := v.(type) {
	case int:
		return float64(x), true
	case int8:
		return float64(x), true
	case int16:
		return float64(x), true
	case int32:
		return float64(x), true
	case int64:
		return float64(x), true
	case uint:
		return float64(x), true
	case uint8:
		return float64(x), true
	case uint16:
		return float64(x), true
	case uint32:
		return float64(x), true
	case uint64:
		return float64(x), true
	case float32:
		return float64(x), true
	case float64:
		return x, true
	case bool:
		if x {
			return 1, true
		}
		return 0, true
	}
	return 0, false
}
