#!/usr/bin/env python3
# summarises `go tool covdata func` output for the generated sources (C17 auxiliary): per file functions reached / total,
# and the list (capped) of generated functions never reached.  usage: tools_cov.py covfunc.txt > extra.json
import sys, json, re, collections
GEN = ("internal/execution/", "internal/storage/getset.go", "array_getset.go", "dense_maskcmp_methods.go", "dense_generated.go",
       "dense_compat.go", "native/iterator_native", "dense_arith.go", "dense_cmp.go", "defaultengine_arith.go", "defaultengine_cmp.go",
       "defaultengine_unary.go", "api_arith.go", "api_cmp.go", "api_unary.go")
per = collections.OrderedDict(); missed = collections.defaultdict(list)
for line in open(sys.argv[1]):
    m = re.match(r"(\S+?):(\d+):\s+(\S+)\s+([\d.]+)%", line)
    if not m: continue
    path, _, fn, pct = m.groups()
    path = path.replace("gorgonia.org/tensor/", "")
    if not any(g in path for g in GEN): continue
    t = per.setdefault(path, [0, 0])
    t[1] += 1
    if float(pct) > 0: t[0] += 1
    else: missed[path].append(fn)
tot_r = sum(v[0] for v in per.values()); tot = sum(v[1] for v in per.values())
out = {"generated_function_coverage": {"functions_reached": tot_r, "functions_total": tot,
        "per_file": {k: "%d/%d" % (v[0], v[1]) for k, v in per.items()},
        "never_reached_sample": {k: v[:25] + (["... +%d more" % (len(v) - 25)] if len(v) > 25 else []) for k, v in missed.items()},
        "note": "auxiliary measurement (not part of the verdict): functions of the generated sources executed by the C17 sweep, from a -cover build of the same harness"}}
json.dump(out, sys.stdout)
