#!/usr/bin/env bash
# MANIFEST.setup_cmd: build the tools from files on disk only and warm the Go build cache.
set -e
export GOFLAGS=-mod=mod GOPROXY=off GOSUMDB=off GOTOOLCHAIN=local
cd "$(dirname "${BASH_SOURCE[0]}")"
mkdir -p .build evidence replays
# a tiny run builds mkoverlay + the harness (all configurations are built lazily by ./check on first use)
VERIF_SHARDS=1 VERIF_DEADLINE=1 ./check C01 quick > .build/setup.log 2>&1 || { cat .build/setup.log; exit 1; }
rm -f evidence/C01.json
echo setup ok
