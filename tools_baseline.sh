#!/usr/bin/env bash
# maintainer helper: run the repository's own suite (guard off, no overlay) and list failing tests
export GOFLAGS=-mod=mod GOPROXY=off GOSUMDB=off GOTOOLCHAIN=local
cd "${1:-/repo}" && go test -vet=off -count=1 -timeout 25m ./... 2>&1 | grep -E "^(--- FAIL|FAIL|ok|panic)" 
