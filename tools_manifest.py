#!/usr/bin/env python3
# maintainer helper: (re)generate MANIFEST.json from the table below
import json
BASE_OFF = "cd /repo && GOFLAGS=-mod=mod GOPROXY=off GOSUMDB=off GOTOOLCHAIN=local go test -json -vet=off -count=1 -timeout 25m ./..."
checks = {
 "C01": dict(engine="E1+E2", technique="bounded-exhaustive enumeration of tensor states x complete coordinate box against a cell-identity reference model (explicit-state view graph for the view states)",
   text="Every element type x every shape of rank 0-4 (bounded dims) x constructions (row-major, declared column-major, converting column-major constructor) and every view state of the slice/transpose view graph to the stated depth x EVERY coordinate of the box [-2,dim+1]^rank and every wrong arity, for At and SetAt, executed on the real library and compared with the model's root cell by read-probe / write-probe on the harness-owned backing; exhaustive within the bounds, no sampling.",
   ref="4 C01", note="Trusted: Go runtime/reflect, the reference model (ref.View), the harness-owned backing slice. Bounds: dims<=3 (rank<=3), <=2 (rank 4) quick; dims<=3 all ranks + vectors/matrices to 5 thorough."),
 "C02": dict(engine="E1+E2", technique="bounded-exhaustive enumeration of slice argument lists (complete per-axis alphabet) + explicit-state BFS over nested view states, against the NumPy-semantics reference model, compared by cell identity",
   text="Every source state (row-major, declared column-major, lazily transposed; sliced / step-sliced / transposed-sliced in the reduced sweep) x shapes of rank 1-4 (bounded dims) x every prefix length x the complete per-axis argument alphabet (nil, every index -1..n, every (start,end,step) triple in the stated box) is executed on the real Slice / SliceInto / Narrow and compared with the model by the identity of the root cells the result denotes plus an At read-back; nested slicing is a BFS to depth 3 over real view states with dedup on the canonical state key; invalid arguments must return an error, sources must be unchanged.",
   ref="4 C02", note="Trusted: reference model ref.View.Slice; At (decided by C01) for the read-back; public Shape/Strides + window position for cell identity. Empty ranges and negative steps are not judged (statement is silent). Two recorded findings (leading-axis stepped range floors; single-element results always scalar) are attributed only to results that equal the defect model exactly."),
 "C03": dict(engine="E2", technique="explicit-state breadth-first search over real tensors (successor = replay + one transposition operation) with a permutation reference model; both build configurations",
   text="BFS over operation sequences (depth 2-4 by rank) whose alphabet is T(p) for EVERY permutation p of the rank, T(), UT, Transpose, Materialize, SafeT(p), RollAxis(a,s,safe) for every a,s, tensor.T and tensor.Transpose, from contiguous, column-major, sliced and step-sliced roots of 6 element widths, ranks 0-5; every state is deduplicated on (metadata, storage bytes, pending) and every transition is compared with the model (permuted logical array, exact restore by UT, storage order and default strides after physical transposition, receiver untouched by the copying forms). Built and run twice: default tags and -tags inplacetranspose.",
   ref="4 C03", note="Trusted: ref.Arr.Permute, At (C01). Recorded findings (column-major data movement, strided vector views, no-op SafeT bookkeeping, two inplacetranspose-only defects) are matched by precondition tags computed from the receiver's state; anything else is a violation."),
 "C04": dict(engine="E2+E1", technique="bounded-exhaustive enumeration of view states (view-graph BFS) x whole-tensor writes with a full-root frame diff; copy operations x source layouts with two-way write probes",
   text="Every view state (atlas layouts + view-graph states to depth 2) of every element type over an identity-coded parent x every whole-tensor write (Memset, Zero, SetAt sweep, Copy, CopyTo, physical transpose, unsafe unary/binary ops, reuse, incr): the WHOLE parent backing is diffed - cells in the view's image must hold the model values, every other cell must be untouched. Every copy operation (Clone, Materialize, SafeT, Copy, CopyTo, ShallowClone, ToMat64/FromMat64, native.*) x every row-major-rooted source layout: logical equality by At sweep, storage disjointness by write probes in both directions.",
   ref="4 C04", note="Trusted: the model's cell maps (C02/C03), At/SetAt (C01). Column-major roots are exercised by C16. CopyTo is documented as a raw storage copy and judged accordingly."),
 "C05": dict(engine="E2", technique="explicit-state BFS over the iterator state machine of the real iterator for every access pattern, every mask over <=N elements, and every layout pair/triple for the multi-iterator, against a position/direction model",
   text="For every access pattern reachable from the shape set (atlas layouts + view graph) the real FlatIterator is driven through a BFS over {Next, NextValidity, NextValid, NextInvalid, Reset, SetReverse, SetForward, Start} to depth size+3 with dedup on (model position, direction, private cursor); yielded offsets, Coord and Done are compared with the model in every state. Masked iterators: every mask over <=6 (quick) / <=8 (thorough) elements. Multi-iterators: every ordered pair and triple of layouts, with a mid-way Reset.",
   ref="4 C05", note="Trusted: the model's cell maps; the exported private cursor is only used as dedup key. Coord is not judged on an exhausted iterator."),
 "C06": dict(engine="E1", technique="bounded-exhaustive enumeration of the operation x element type x operand form x layout x layout x shape x value-set matrix against Go's own operators (generic reference semantics), every coordinate compared",
   text="Add/Sub/Mul/Div/Mod/Pow/MinBetween/MaxBetween x 14 numeric types x {TT, TS, ST, scalar-as-Tensor on either side} x L5 x L5 layouts x 13 (18 thorough) shapes x {injective, edge} value sets x {function, method}, plus the refusal space (unequal shapes, element-type pairs, unsupported types). Each result coordinate is compared bit-exactly with Go's operator (tolerance only for Pow/Mod on floats and complex division); operands must be unchanged; (op,type) pairs the library refuses on the plainest input must be refused everywhere.",
   ref="4 C06", note="Trusted: ref.Arith (one generic definition per operator), math/math32/cmplx for Pow and Mod, the layout atlas (operands are read back before use)."),
 "C07": dict(engine="E1", technique="bounded-exhaustive enumeration of operation x option mode x destination layout x operand layout matrix with returned-identity, value and frame oracles",
   text="Every arithmetic, comparison and unary operation (+Clamp) x {safe, unsafe, reuse (contiguous, sliced, step-sliced, transposed, == operand a, == operand b, other shape, wrong size), incr (contiguous, sliced)} x operand forms x L5 layouts x element type representatives (all 14 thorough): values must equal the safe-mode model (incr: destination + result), the returned tensor must be the designated one, every other tensor and every parent cell outside the destination's image must be unchanged.",
   ref="4 C07", note="As C06. Recorded findings are matched by exact defect models (op(a,a) for reuse==b, plain result for min/max incr) or by the destination's window-size precondition."),
 "C11": dict(engine="E1", technique="bounded-exhaustive enumeration of comparison x element type x form x result mode x layout x layout x shape x value set against Go's comparison operators",
   text="6 comparisons x all 18 element types (ordered / comparable as applicable) x {TT,TS,ST} x {bool, same-type, in place, reuse bool, reuse same-type} x L5 x L5 x shapes x {injective, ties, edge incl. NaN} x {function, method}, plus refusal of unordered/mismatched types and unequal shapes.",
   ref="4 C11", note="As C06."),
 "C12": dict(engine="E1", technique="bounded-exhaustive enumeration of unary operation x element type x layout x mode x shape x value set against the scalar function; Apply with a typed function of every element type",
   text="14 unary operations + Clamp x all 18 element types (unsupported ones must be refused everywhere) x L5 x {safe, unsafe, reuse, incr, view destinations} x shapes x 4 value sets incl. 0, negatives, extremes, non-finite; Apply(fn) for a func(T) T of every element type x layouts x modes and wrong-signature functions.",
   ref="4 C12", note="As C06; float32 functions are compared against math32 (the float32 maths routines), float64 against package math, both with a small relative tolerance."),
}
pending = {}
for i in range(2,21):
    pid="C%02d"%i
    if pid not in checks:
        pending[pid]="check not built yet in this session (work in progress; see DESIGN.md section 4 for the planned model-checking design)"
m = {
 "version":1,
 "setup_cmd":"./setup.sh",
 "hooks":{"guard":"verif","enable":"go build -tags verif -overlay /verif/.build/ov/overlay.json (overlay generated from the current /repo working tree by harness/mkoverlay: injects zz_verif_*.go into package tensor, maps the vsync shim to internal/vsync and rewrites the import \"sync\" of perf.go/array.go/blas.go; no file of /repo is edited)",
   "baseline_off_cmd":BASE_OFF,"source_commits":[],"add_only":True},
 "engines":[
   {"name":"E1 enum","path":"harness/props","serves_properties":["C01","C02","C06","C07","C08","C09","C10","C11","C12","C13","C14","C15","C16","C17","C20"],"kind_free_text":"bounded-exhaustive enumeration of operation inputs against a reference model on the real implementation"},
   {"name":"E2 bfs","path":"harness/atlas/viewgraph.go","serves_properties":["C01","C02","C03","C04","C05","C13","C19"],"kind_free_text":"explicit-state breadth-first search over real objects (successor = replay on fresh instance + 1 operation), dedup on canonical state key"},
   {"name":"E3 sched","path":"harness/sched","serves_properties":["C18"],"kind_free_text":"cooperative scheduler + stateless DFS with iterative preemption bounding over real goroutines"},
 ],
 "checks":[],
 "not_applicable":[{"property_id":k,"reason":v} for k,v in sorted(pending.items())],
 "notes":"All checks rebuild the harness against /repo's working tree on every invocation (./check). Known findings: /verif/known_findings.jsonl + /verif/findings/*.cases.",
}
for pid,c in sorted(checks.items()):
    m["checks"].append({"property_id":pid,"quick_cmd":f"./check {pid} quick","thorough_cmd":f"./check {pid} thorough",
      "evidence_file":f"/verif/evidence/{pid}.json","replay_cmd_template":"./check --replay {path}","engine":c["engine"],
      "level_claimed":{"category":"model_checking","text":c["text"],"design_ref":c["ref"]},"level_note":c["note"],"technique":c["technique"]})
json.dump(m,open("/verif/MANIFEST.json","w"),indent=1)
print("checks:",len(m["checks"]),"pending:",len(pending))
