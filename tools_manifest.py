#!/usr/bin/env python3
# maintainer helper: (re)generate MANIFEST.json from the table below
import json
BASE_OFF = "cd /repo && GOFLAGS=-mod=mod GOPROXY=off GOSUMDB=off GOTOOLCHAIN=local go test -json -vet=off -count=1 -timeout 25m ./..."
checks = {
 "C01": dict(engine="E1+E2", technique="bounded-exhaustive enumeration of tensor states x complete coordinate box against a cell-identity reference model (explicit-state view graph for the view states)",
   text="Every element type x every shape of rank 0-4 (bounded dims) x constructions (row-major, declared column-major, converting column-major constructor) and every view state of the slice/transpose view graph to the stated depth x EVERY coordinate of the box [-2,dim+1]^rank and every wrong arity, for At and SetAt, executed on the real library and compared with the model's root cell by read-probe / write-probe on the harness-owned backing; exhaustive within the bounds, no sampling.",
   ref="4 C01", note="Trusted: Go runtime/reflect, the reference model (ref.View), the harness-owned backing slice. Bounds: dims<=3 (rank<=3), <=2 (rank 4) quick; dims<=3 all ranks + vectors/matrices to 5 thorough."),
 "C02": dict(engine="E1+E2", technique="bounded-exhaustive enumeration of slice argument lists (complete per-axis alphabet) + explicit-state BFS over nested view states, against the NumPy-semantics reference model, compared by cell identity",
   text="Every source state (row-major, declared column-major, lazily transposed; sliced / step-sliced / transposed-sliced in the reduced sweep) x shapes of rank 1-4 (bounded dims) x every prefix length x the complete per-axis argument alphabet (nil, every index -1..n, every (start,end,step) triple in the stated box) is executed on the real Slice / SliceInto / Narrow and compared with the model by the identity of the root cells the result denotes plus an At read-back; nested slicing is a BFS to depth 3 over real view states with dedup on the canonical state key; invalid arguments must return an error, sources must be unchanged.",
   ref="4 C02", note="Trusted: reference model ref.View.Slice; At (decided by C01) for the read-back; public Shape/Strides + window position for cell identity. Empty ranges and negative steps are not judged (statement is silent). Two recorded findings (leading-axis stepped range floors; single-element results always scalar) are attributed only to results that equal the defect model exactly."),
 "C03": dict(engine="E2", technique="explicit-state breadth-first search over real tensors (successor = replay + one transposition operation) with a permutation reference model; both build configurations",
   text="BFS over operation sequences (depth 2-4 by rank) whose alphabet is T(p) for EVERY permutation p of the rank, T(), UT, Transpose, Materialize, SafeT(p), RollAxis(a,s,safe) for every a,s, tensor.T and tensor.Transpose, from contiguous, column-major, sliced and step-sliced roots of 6 element widths, ranks 0-5; every state is deduplicated on (metadata, storage bytes, pending) and every transition is compared with the model (permuted logical array, exact restore by UT, storage order and default strides after physical transposition, receiver untouched by the copying forms). Built and run twice: default tags and -tags inplacetranspose.",
   ref="4 C03", note="Trusted: ref.Arr.Permute, At (C01). Recorded findings (column-major data movement, strided vector views, no-op SafeT bookkeeping, two inplacetranspose-only defects) are matched by precondition tags computed from the receiver's state; anything else is a violation."),
}
pending = {}
for i in range(2,21):
    pid="C%02d"%i
    if pid not in checks:
        pending[pid]="check not built yet in this session (work in progress; see DESIGN.md section 4 for the planned model-checking design)"
m = {
 "version":1,
 "setup_cmd":"./setup.sh",
 "hooks":{"guard":"verif","enable":"go build -tags verif -overlay /verif/.build/ov/overlay.json (overlay generated from the current /repo working tree by harness/mkoverlay: injects zz_verif_*.go into package tensor, maps the vsync shim to internal/vsync and rewrites the import \"sync\" of perf.go/array.go/blas.go; no file of /repo is edited)",
   "baseline_off_cmd":BASE_OFF,"source_commits":[],"add_only":True},
 "engines":[
   {"name":"E1 enum","path":"harness/props","serves_properties":["C01","C02","C06","C07","C08","C09","C10","C11","C12","C13","C14","C15","C16","C17","C20"],"kind_free_text":"bounded-exhaustive enumeration of operation inputs against a reference model on the real implementation"},
   {"name":"E2 bfs","path":"harness/atlas/viewgraph.go","serves_properties":["C01","C02","C03","C04","C05","C13","C19"],"kind_free_text":"explicit-state breadth-first search over real objects (successor = replay on fresh instance + 1 operation), dedup on canonical state key"},
   {"name":"E3 sched","path":"harness/sched","serves_properties":["C18"],"kind_free_text":"cooperative scheduler + stateless DFS with iterative preemption bounding over real goroutines"},
 ],
 "checks":[],
 "not_applicable":[{"property_id":k,"reason":v} for k,v in sorted(pending.items())],
 "notes":"All checks rebuild the harness against /repo's working tree on every invocation (./check). Known findings: /verif/known_findings.jsonl + /verif/findings/*.cases.",
}
for pid,c in sorted(checks.items()):
    m["checks"].append({"property_id":pid,"quick_cmd":f"./check {pid} quick","thorough_cmd":f"./check {pid} thorough",
      "evidence_file":f"/verif/evidence/{pid}.json","replay_cmd_template":"./check --replay {path}","engine":c["engine"],
      "level_claimed":{"category":"model_checking","text":c["text"],"design_ref":c["ref"]},"level_note":c["note"],"technique":c["technique"]})
json.dump(m,open("/verif/MANIFEST.json","w"),indent=1)
print("checks:",len(m["checks"]),"pending:",len(pending))
